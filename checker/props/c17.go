package props

import (
	"fmt"
	"go/ast"
	"go/types"
	"sort"
	"strings"

	"golang.org/x/tools/go/packages"
	"golang.org/x/tools/go/ssa"

	"verif/checker/core"
)

// C17 Read-only mounts cannot be modified by the guest.

func init() {
	core.Register(&core.Property{
		ID:    "C17",
		Level: "proof",
		Explanation: "Theorem decided for every call sequence and every flag value: no call through the read-only wrapper (the sys.FS value WithReadOnlyDirMount registers) can reach a mutating method of the wrapped file system or of a file it opened, " +
			"and no open with a write access mode, O_CREAT or O_TRUNC is delegated (finite-domain evaluation of the wrapper's OpenFile over all 2^13 flag values); the wrapper cannot be bypassed (nobody else reads its embedded field or type-asserts to it; " +
			"WithReadOnlyDirMount registers nothing but the wrapper; the wrapper's OpenFile returns only its own file wrapper); the fs.FS adapter and its file type reach no mutating os/syscall function; " +
			"the WASI file functions reach host file mutation only through the mounted sys.FS/sys.File interfaces. Not decided: that reads keep working (liveness), behaviour of an embedder-supplied sys.FS that ignores O_RDONLY.",
		Assumptions: []string{
			"the wrapped file system opens a file read-only when the access-mode bits are neither O_WRONLY nor O_RDWR (sysfs.DirFS: os.OpenFile with O_RDONLY)",
			"an fs.File supplied by the embedder that itself implements io.Writer is an embedder-granted capability, not host authority (os.DirFS opens read-only)",
			"POSIX: a descriptor opened O_RDONLY cannot modify the file",
		},
		TrustedBase: []string{"classification table of sys.FS / sys.File methods (mutating vs read-only) in checker/props/c17.go", "finite-domain flag interpreter checker/core/flageval.go"},
		Rules: []core.Rule{
			{ID: "R17.0", Template: "anchor", Text: "the read-only wrapper is the concrete sys.FS type allocated in the implementation of FSConfig.WithReadOnlyDirMount; its file wrapper is the concrete type its OpenFile returns", Min: 2},
			{ID: "R17.1", Template: "T-EXHAUST", Text: "every mutating method of sys.FS / sys.File is declared on the wrapper itself (not promoted from the embedded value) and its body performs no call through the embedded value; every interface method is classified", Min: 25},
			{ID: "R17.2", Template: "T-CONSULT", Text: "for every flag value, an open delegated to the wrapped FS has access mode ∉ {O_WRONLY,O_RDWR} and neither O_CREAT nor O_TRUNC", Min: 3},
			{ID: "R17.3", Template: "T-CAP", Text: "the wrapper cannot be bypassed: registration site wraps, OpenFile returns only the file wrapper, nobody else reads the embedded fields or asserts to the wrapper types; the fs.FS adapter reaches no mutating os/syscall API", Min: 4},
			{ID: "R17.5", Template: "T-OWN", Text: "the mount list of an FSConfig that was already handed out is never written: every write to FSConfig-owned memory (fs, guestPaths, guestPathToFS) goes to memory fresh in that activation (C19's analysis restricted to FSConfig)", Min: 3},
			{ID: "R17.4", Template: "T-CAP", Text: "WASI file functions reach mutating os/syscall functions only through invokes on the mounted sys.FS / sys.File / fsapi.File interfaces", Min: 1},
		},
		Run: runC17,
		Controls: []core.Control{
			{Name: "drop-unlink-override", File: "internal/sysfs/readfs.go", Old: "func (r *ReadFS) Unlink(path string) experimentalsys.Errno {\n\treturn experimentalsys.EROFS\n}", New: "", Rule: "R17.1", Substr: "Unlink"},
			{Name: "utimens-delegates", File: "internal/sysfs/readfs.go", Old: "func (r *ReadFS) Utimens(path string, atim, mtim int64) experimentalsys.Errno {\n\treturn experimentalsys.EROFS", New: "func (r *ReadFS) Utimens(path string, atim, mtim int64) experimentalsys.Errno {\n\tif atim == 0 {\n\t\treturn r.FS.Utimens(path, atim, mtim)\n\t}\n\treturn experimentalsys.EROFS", Rule: "R17.1", Substr: "Utimens"},
			{Name: "trunc-passes", File: "internal/sysfs/readfs.go", Old: "if flag&experimentalsys.O_TRUNC != 0 {", New: "if flag&experimentalsys.O_TRUNC != 0 && flag&experimentalsys.O_DIRECTORY != 0 {", Rule: "R17.2", Substr: "O_TRUNC"},
			{Name: "creat-passes", File: "internal/sysfs/readfs.go", Old: "flag &^= experimentalsys.O_CREAT | experimentalsys.O_EXCL", New: "flag &^= experimentalsys.O_EXCL", Rule: "R17.2", Substr: "O_CREAT"},
			{Name: "rdwr-passes-for-dirs", File: "internal/sysfs/readfs.go", Old: "\t\tif flag&experimentalsys.O_DIRECTORY != 0 {\n\t\t\treturn nil, experimentalsys.EISDIR\n\t\t}\n\t\treturn nil, experimentalsys.ENOSYS", New: "\t\tif flag&experimentalsys.O_DIRECTORY == 0 {\n\t\t\treturn nil, experimentalsys.ENOSYS\n\t\t}", Rule: "R17.2", Substr: "access"},
			{Name: "openfile-returns-raw-file", File: "internal/sysfs/readfs.go", Old: "return &readFile{f}, 0", New: "if flag&experimentalsys.O_DIRECTORY != 0 {\n\t\treturn f, 0\n\t}\n\treturn &readFile{f}, 0", Rule: "R17.3", Substr: "OpenFile-result"},
			{Name: "mount-unwrapped", File: "fsconfig.go", Old: "return c.WithSysFSMount(&sysfs.ReadFS{FS: sysfs.DirFS(dir)}, guestPath)", New: "ro := &sysfs.ReadFS{FS: sysfs.DirFS(dir)}\n\treturn c.WithSysFSMount(ro.FS, guestPath)", Rule: "R17.3", Substr: "registration"},
			{Name: "wasi-unwraps", File: "imports/wasi_snapshot_preview1/fs.go", Old: "symlinkFollow := flags&wasip1.LOOKUP_SYMLINK_FOLLOW != 0\n\tif symlinkFollow {", New: "symlinkFollow := flags&wasip1.LOOKUP_SYMLINK_FOLLOW != 0\n\tif ro, ok := preopen.(*sysfs.ReadFS); ok && symlinkFollow {\n\t\treturn ro.FS.Utimens(pathName, atim, mtim)\n\t}\n\tif symlinkFollow {", Rule: "R17.3", Substr: "bypass", Old2: "import (\n", New2: "import (\n\t\"github.com/tetratelabs/wazero/internal/sysfs\"\n"},
			{Name: "file-wrapper-unwrap-method", File: "internal/sysfs/readfs.go", Old: "func (r *readFile) writeErr() experimentalsys.Errno {", New: "func (r *readFile) Unwrap() experimentalsys.File {\n\treturn r.File\n}\n\nfunc (r *readFile) writeErr() experimentalsys.Errno {", Rule: "R17.3", Substr: "bypass"},
			{Name: "adapter-removes", File: "internal/sysfs/adapter.go", Old: "func (a *AdaptFS) Unlink(string) experimentalsys.Errno {\n\treturn experimentalsys.ENOSYS", New: "func (a *AdaptFS) Unlink(p string) experimentalsys.Errno {\n\tif err := os.Remove(p); err == nil {\n\t\treturn 0\n\t}\n\treturn experimentalsys.ENOSYS", Rule: "R17.3", Substr: "adapter", Old2: "import (\n", New2: "import (\n\t\"os\"\n"},
		},
		Configs: []core.BuildCfg{{GOOS: "windows", GOARCH: "amd64"}, {GOOS: "darwin", GOARCH: "arm64"}, {GOOS: "freebsd", GOARCH: "amd64"}, {GOOS: "linux", GOARCH: "arm64"}, {GOOS: "linux", GOARCH: "riscv64"}},
	})
}

// classification of the file-system interfaces (from the interface documentation in experimental/sys).
var fsMethodClass = map[string]string{
	"OpenFile": "flag-dependent", "Lstat": "read", "Stat": "read", "Readlink": "read",
	"Mkdir": "mutating", "Chmod": "mutating", "Rename": "mutating", "Rmdir": "mutating", "Unlink": "mutating",
	"Link": "mutating", "Symlink": "mutating", "Utimens": "mutating",
}

var fileMethodClass = map[string]string{
	"Dev": "read", "Ino": "read", "IsDir": "read", "IsAppend": "read", "SetAppend": "fd-state", "Stat": "read",
	"Read": "read", "Pread": "read", "Seek": "fd-state", "Readdir": "read", "Close": "fd-state",
	"Write": "mutating", "Pwrite": "mutating", "Truncate": "mutating", "Sync": "mutating", "Datasync": "mutating", "Utimens": "mutating",
	// fsapi.File additions
	"IsNonblock": "read", "SetNonblock": "fd-state", "Poll": "read",
}

func lookupIface(c *core.Ctx, rel, name string) (*types.Named, *types.Interface) {
	p := c.Pkg(rel)
	if p == nil {
		return nil, nil
	}
	o := p.Types.Scope().Lookup(name)
	if o == nil {
		return nil, nil
	}
	n, _ := o.Type().(*types.Named)
	it, _ := o.Type().Underlying().(*types.Interface)
	return n, it
}

func runC17(c *core.Ctx) {
	fsNamed, fsIface := lookupIface(c, "experimental/sys", "FS")
	fileNamed, fileIface := lookupIface(c, "experimental/sys", "File")
	_, fsapiFile := lookupIface(c, "internal/fsapi", "File")
	_, fsCfgIface := lookupIface(c, "", "FSConfig")
	if fsIface == nil || fileIface == nil || fsCfgIface == nil {
		c.Undecided("R17.0", "interfaces", 0, "experimental/sys.FS, experimental/sys.File or wazero.FSConfig not found")
		return
	}
	prog := c.SSA()

	// ---- R17.0 anchors: the registration site and the wrapper types
	var regFn *ssa.Function
	root := c.Pkg("")
	for _, n := range root.Types.Scope().Names() {
		tn, ok := root.Types.Scope().Lookup(n).(*types.TypeName)
		if !ok {
			continue
		}
		named, ok := tn.Type().(*types.Named)
		if !ok || !types.Implements(types.NewPointer(named), fsCfgIface) {
			continue
		}
		if _, isStruct := named.Underlying().(*types.Struct); !isStruct {
			continue
		}
		o, _, _ := types.LookupFieldOrMethod(types.NewPointer(named), true, root.Types, "WithReadOnlyDirMount")
		if f, ok := o.(*types.Func); ok {
			regFn = prog.FuncValue(f)
		}
	}
	if regFn == nil || regFn.Blocks == nil {
		c.Undecided("R17.0", "registration-site", 0, "implementation of FSConfig.WithReadOnlyDirMount not found")
		return
	}
	var wrapper *types.Named
	for _, b := range regFn.Blocks {
		for _, in := range b.Instrs {
			if mi, ok := in.(*ssa.MakeInterface); ok && types.Identical(mi.Type(), fsNamed) {
				if n := core.NamedOf(mi.X.Type()); n != nil {
					if _, isAlloc := mi.X.(*ssa.Alloc); isAlloc && embedsIface(n, fsNamed) >= 0 {
						wrapper = n
					}
				}
			}
		}
	}
	if wrapper == nil {
		// the registration site no longer allocates a wrapper around a sys.FS: report as violation of R17.3
		c.Violate("R17.3", "registration: "+core.SSAFuncName(regFn), regFn.Pos(), "WithReadOnlyDirMount does not register a freshly allocated wrapper that embeds the wrapped sys.FS")
		return
	}
	c.Discharge("R17.0", "wrapper:"+wrapper.String(), wrapper.Obj().Pos(), "allocated in "+core.SSAFuncName(regFn))
	wrapPkg := c.All[wrapper.Obj().Pkg().Path()]
	embFS := embedsIface(wrapper, fsNamed)

	// wrapper's OpenFile and its result type
	openObj, _, _ := types.LookupFieldOrMethod(types.NewPointer(wrapper), true, wrapPkg.Types, "OpenFile")
	openFn, _ := openObj.(*types.Func)
	var openSSA *ssa.Function
	if openFn != nil {
		openSSA = prog.FuncValue(openFn)
	}
	if openSSA == nil || openSSA.Blocks == nil || core.NamedOf(openFn.Type().(*types.Signature).Recv().Type()) != wrapper {
		c.Violate("R17.1", "FS.OpenFile@"+wrapper.Obj().Name(), wrapper.Obj().Pos(), "OpenFile is not declared on the wrapper: opens are delegated unfiltered")
		return
	}
	var fileWrapper *types.Named
	okResults := true
	var badRes []string
	for _, b := range openSSA.Blocks {
		for _, in := range b.Instrs {
			ret, ok := in.(*ssa.Return)
			if !ok || len(ret.Results) == 0 {
				continue
			}
			for _, v := range flattenPhi(ret.Results[0]) {
				switch x := v.(type) {
				case *ssa.Const:
					if !x.IsNil() {
						okResults = false
					}
				case *ssa.MakeInterface:
					n := core.NamedOf(x.X.Type())
					if n == nil || embedsIface(n, fileNamed) < 0 || n.Obj().Pkg() != wrapper.Obj().Pkg() {
						okResults = false
						badRes = append(badRes, fmt.Sprintf("returns a %s at %s", x.X.Type(), c.Pos(ret.Pos())))
					} else if fileWrapper == nil || fileWrapper == n {
						fileWrapper = n
					} else {
						okResults = false
						badRes = append(badRes, "two different file wrapper types")
					}
				default:
					okResults = false
					badRes = append(badRes, fmt.Sprintf("returns the unwrapped value %s (%s) at %s", v.Name(), v.Type(), c.Pos(ret.Pos())))
				}
			}
		}
	}
	if fileWrapper == nil {
		c.Violate("R17.3", "OpenFile-result@"+wrapper.Obj().Name(), openSSA.Pos(), "the wrapper's OpenFile never returns a file wrapper: "+strings.Join(badRes, "; "))
		return
	}
	c.Discharge("R17.0", "file-wrapper:"+fileWrapper.String(), fileWrapper.Obj().Pos(), "returned by "+core.SSAFuncName(openSSA))
	c.Check(okResults, "R17.3", "OpenFile-result@"+wrapper.Obj().Name(), openSSA.Pos(),
		"every return yields nil or a "+fileWrapper.Obj().Name(), strings.Join(badRes, "; "))
	embFile := embedsIface(fileWrapper, fileNamed)

	// ---- R17.1 overrides
	checkOverrides(c, wrapPkg, wrapper, fsIface, fsNamed, embFS, fsMethodClass, "FS")
	checkOverrides(c, wrapPkg, fileWrapper, fileIface, fileNamed, embFile, fileMethodClass, "File")
	if fsapiFile != nil {
		// the file wrapper must not expose fsapi.File extras that mutate; it does not need to implement them
		for i := 0; i < fsapiFile.NumMethods(); i++ {
			m := fsapiFile.Method(i)
			if _, ok := fileMethodClass[m.Name()]; !ok {
				c.Undecided("R17.1", "fsapi.File."+m.Name()+":classification", m.Pos(), "interface method is not classified as mutating/read-only in the checker's table")
			}
		}
	}

	// ---- R17.2 flags: every method declared on the wrapper that delegates an open
	checkOpenFlags(c, wrapPkg, wrapper, embFS, fsIface)

	// ---- R17.3 bypass
	checkRegistration(c, regFn, wrapper, fsNamed, embFS)
	checkNoBypass(c, wrapper, fileWrapper, embFS, embFile)
	checkAdapter(c, fsNamed, fileNamed)

	// ---- R17.4 WASI reaches host mutation only through the mount
	checkWasiThroughMount(c)

	// ---- R17.5 the mount list of a published FSConfig is never rewritten (a read-only mount cannot be swapped
	// for a writable one behind the back of a configuration that was already handed out)
	fsSeeds := map[*types.Named]bool{}
	for n := range configTypes(c) {
		if types.Implements(types.NewPointer(n), fsCfgIface) {
			fsSeeds[n] = true
		}
	}
	agg, keys, owned, _ := ownedWriteAnalysis(c, fsSeeds)
	for _, k := range keys {
		g := agg[k]
		if len(g.bad) == 0 {
			c.Discharge("R17.5", k, g.fn.Pos(), fmt.Sprintf("%d write site(s) on FSConfig-owned memory, all on fresh unpublished memory", g.sites))
		} else {
			c.Violate("R17.5", k, g.pos[0].Pos, strings.Join(g.bad, "; "))
		}
	}
	c.Count("fsconfig_owned_write_sites", owned)
}

func flattenPhi(v ssa.Value) []ssa.Value {
	seen := map[ssa.Value]bool{}
	var out []ssa.Value
	var walk func(v ssa.Value)
	walk = func(v ssa.Value) {
		if seen[v] {
			return
		}
		seen[v] = true
		if p, ok := v.(*ssa.Phi); ok {
			for _, e := range p.Edges {
				walk(e)
			}
			return
		}
		out = append(out, v)
	}
	walk(v)
	return out
}

// embedsIface returns the index of the embedded field of the given interface type, or -1.
func embedsIface(n *types.Named, iface *types.Named) int {
	st, ok := n.Underlying().(*types.Struct)
	if !ok {
		return -1
	}
	for i := 0; i < st.NumFields(); i++ {
		f := st.Field(i)
		if f.Embedded() && types.Identical(f.Type(), iface) {
			return i
		}
	}
	return -1
}

func findDecl(p *packages.Package, fn *types.Func) *ast.FuncDecl {
	var out *ast.FuncDecl
	core.AllFuncDecls(p, func(fd *ast.FuncDecl) {
		if p.TypesInfo.Defs[fd.Name] == fn {
			out = fd
		}
	})
	return out
}

// callsThroughEmbedded lists calls in body whose receiver is the embedded field idx of wrapper
// (explicit r.FS.M(...) or promoted r.M(...)), with the method called.
func callsThroughEmbedded(info *types.Info, body ast.Node, wrapper *types.Named, idx int) map[*ast.CallExpr]*types.Func {
	out := map[*ast.CallExpr]*types.Func{}
	ast.Inspect(body, func(n ast.Node) bool {
		call, ok := n.(*ast.CallExpr)
		if !ok {
			return true
		}
		se, ok := ast.Unparen(call.Fun).(*ast.SelectorExpr)
		if !ok {
			return true
		}
		sel, ok := info.Selections[se]
		if !ok || sel.Kind() != types.MethodVal {
			return true
		}
		fn := sel.Obj().(*types.Func)
		// promoted through the embedded field: receiver is the wrapper and the index path goes through idx
		if core.NamedOf(sel.Recv()) == wrapper && len(sel.Index()) > 1 && sel.Index()[0] == idx {
			out[call] = fn
			return true
		}
		// explicit selection of the embedded field
		if inner, ok := ast.Unparen(se.X).(*ast.SelectorExpr); ok {
			if fsel, ok := info.Selections[inner]; ok && fsel.Kind() == types.FieldVal && core.NamedOf(fsel.Recv()) == wrapper && len(fsel.Index()) == 1 && fsel.Index()[0] == idx {
				out[call] = fn
			}
		}
		return true
	})
	return out
}

func usesEmbeddedValue(info *types.Info, body ast.Node, wrapper *types.Named, idx int) []ast.Node {
	var out []ast.Node
	ast.Inspect(body, func(n ast.Node) bool {
		se, ok := n.(*ast.SelectorExpr)
		if !ok {
			return true
		}
		if fsel, ok := info.Selections[se]; ok && fsel.Kind() == types.FieldVal && core.NamedOf(fsel.Recv()) == wrapper && len(fsel.Index()) == 1 && fsel.Index()[0] == idx {
			out = append(out, se)
		}
		return true
	})
	return out
}

func checkOverrides(c *core.Ctx, p *packages.Package, wrapper *types.Named, iface *types.Interface, ifaceNamed *types.Named, emb int, class map[string]string, label string) {
	ms := types.NewMethodSet(types.NewPointer(wrapper))
	for i := 0; i < iface.NumMethods(); i++ {
		m := iface.Method(i)
		key := label + "." + m.Name() + "@" + wrapper.Obj().Name()
		cl, ok := class[m.Name()]
		if !ok {
			c.Undecided("R17.1", key, m.Pos(), "interface method is not classified as mutating/read-only in the checker's table (the interface grew: triage it)")
			continue
		}
		sel := ms.Lookup(p.Types, m.Name())
		if sel == nil {
			c.Violate("R17.1", key, wrapper.Obj().Pos(), "wrapper does not implement the method")
			continue
		}
		declared := len(sel.Index()) == 1
		fn := sel.Obj().(*types.Func)
		if cl != "mutating" {
			// read-only / fd-state / flag-dependent methods may be promoted; if declared they must not call a mutating method
			if declared {
				if fd := findDecl(p, fn); fd != nil {
					bad := ""
					for call, callee := range callsThroughEmbedded(p.TypesInfo, fd.Body, wrapper, emb) {
						if class[callee.Name()] == "mutating" {
							bad += fmt.Sprintf("calls mutating %s through the embedded value at %s; ", callee.Name(), c.Pos(call.Pos()))
						}
					}
					c.Check(bad == "", "R17.1", key, fd.Pos(), cl+" method, declared, no mutating delegate call", bad)
					continue
				}
			}
			c.Discharge("R17.1", key, sel.Obj().Pos(), cl+" method (promotion allowed)")
			continue
		}
		if !declared {
			c.Violate("R17.1", key, wrapper.Obj().Pos(), fmt.Sprintf("mutating method %s is promoted from the embedded %s: calls reach the wrapped %s", m.Name(), ifaceNamed.Obj().Name(), label))
			continue
		}
		fd := findDecl(p, fn)
		if fd == nil {
			c.Undecided("R17.1", key, fn.Pos(), "declaration not found")
			continue
		}
		bad := ""
		for call, callee := range callsThroughEmbedded(p.TypesInfo, fd.Body, wrapper, emb) {
			if class[callee.Name()] == "mutating" || class[callee.Name()] == "flag-dependent" || class[callee.Name()] == "" {
				bad += fmt.Sprintf("calls %s through the embedded value at %s; ", callee.Name(), c.Pos(call.Pos()))
			}
		}
		// the embedded value must not escape from a mutating override either (passed to a helper that could call it)
		for _, use := range usesEmbeddedValue(p.TypesInfo, fd.Body, wrapper, emb) {
			if !isReceiverOfCall(fd.Body, use) {
				bad += fmt.Sprintf("passes the embedded value on at %s; ", c.Pos(use.Pos()))
			}
		}
		// calls to other methods of the wrapper are fine only if those are non-mutating w.r.t. the table (checked on their own)
		c.Check(bad == "", "R17.1", key, fd.Pos(), "declared on the wrapper; no delegate call", bad)
	}
}

func isReceiverOfCall(body ast.Node, sel ast.Node) bool {
	ok := false
	ast.Inspect(body, func(n ast.Node) bool {
		if call, is := n.(*ast.CallExpr); is {
			if se, is := ast.Unparen(call.Fun).(*ast.SelectorExpr); is && ast.Unparen(se.X) == sel {
				ok = true
			}
		}
		return true
	})
	return ok
}

func oflagConsts(c *core.Ctx) (map[string]uint64, *types.Named) {
	p := c.Pkg("experimental/sys")
	out := map[string]uint64{}
	var t *types.Named
	if o := p.Types.Scope().Lookup("Oflag"); o != nil {
		t, _ = o.Type().(*types.Named)
	}
	for _, n := range p.Types.Scope().Names() {
		if k, ok := p.Types.Scope().Lookup(n).(*types.Const); ok && t != nil && types.Identical(k.Type(), t) {
			if v, ok := core.ConstOf(k); ok {
				out[n] = uint64(v)
			}
		}
	}
	return out, t
}

func flagNames(v uint64, consts map[string]uint64) string {
	var names []string
	for n := range consts {
		names = append(names, n)
	}
	sort.Strings(names)
	var parts []string
	acc := v & 3
	for _, n := range []string{"O_RDONLY", "O_RDWR", "O_WRONLY"} {
		if consts[n] == acc {
			parts = append(parts, n)
		}
	}
	if acc == 3 {
		parts = append(parts, "O_RDWR|O_WRONLY")
	}
	for _, n := range names {
		k := consts[n]
		if k > 3 && v&k != 0 {
			parts = append(parts, n)
		}
	}
	return strings.Join(parts, "|")
}

func checkOpenFlags(c *core.Ctx, p *packages.Package, wrapper *types.Named, emb int, fsIface *types.Interface) {
	consts, oflagT := oflagConsts(c)
	need := []string{"O_RDONLY", "O_RDWR", "O_WRONLY", "O_CREAT", "O_TRUNC"}
	for _, n := range need {
		if _, ok := consts[n]; !ok {
			c.Undecided("R17.2", "oflag-constants", 0, "constant experimental/sys."+n+" not found")
			return
		}
	}
	var all uint64
	for _, v := range consts {
		all |= v
	}
	// enumerate all subsets of the defined bits
	var domain []uint64
	for sub := all; ; sub = (sub - 1) & all {
		domain = append(domain, sub)
		if sub == 0 {
			break
		}
	}
	c.Count("flag_values_enumerated", len(domain))
	accMask := consts["O_RDWR"] | consts["O_WRONLY"]
	anyDelegate := false
	core.AllFuncDecls(p, func(fd *ast.FuncDecl) {
		if core.RecvName(fd) != wrapper.Obj().Name() {
			return
		}
		delegates := map[*ast.CallExpr]ast.Expr{}
		for call, callee := range callsThroughEmbedded(p.TypesInfo, fd.Body, wrapper, emb) {
			if callee.Name() != "OpenFile" {
				continue
			}
			for _, a := range call.Args {
				if tv, ok := p.TypesInfo.Types[a]; ok && types.Identical(tv.Type, oflagT) {
					delegates[call] = a
				}
			}
			if _, ok := delegates[call]; !ok {
				c.Undecided("R17.2", "open-delegate@"+fd.Name.Name, call.Pos(), "delegated OpenFile call without an Oflag argument")
			}
		}
		if len(delegates) == 0 {
			return
		}
		anyDelegate = true
		// the flag parameter of this method (if any)
		var flagObj types.Object
		for _, f := range fd.Type.Params.List {
			for _, n := range f.Names {
				if o := p.TypesInfo.Defs[n]; o != nil && types.Identical(o.Type(), oflagT) {
					flagObj = o
				}
			}
		}
		ev := &core.FlagEval{Info: p.TypesInfo, Flag: flagObj, Delegate: func(call *ast.CallExpr) (ast.Expr, bool) {
			a, ok := delegates[call]
			return a, ok
		}}
		dom := domain
		if flagObj == nil {
			dom = []uint64{0}
		}
		for _, v := range dom {
			ev.Run(fd.Body, v)
		}
		name := wrapper.Obj().Name() + "." + fd.Name.Name
		if len(ev.Unsupport) > 0 || len(ev.Unknown) > 0 {
			c.Undecided("R17.2", "open-delegate@"+name, fd.Pos(), fmt.Sprintf("flag flow not decidable: unsupported=%v unknown-flag-argument-at=%v", ev.Unsupport, ev.Unknown))
			return
		}
		var reached []uint64
		for v := range ev.Reached {
			reached = append(reached, v)
		}
		sort.Slice(reached, func(i, j int) bool { return reached[i] < reached[j] })
		c.Count("flag_values_reaching_delegate", len(reached))
		type cond struct {
			key  string
			bad  func(v uint64) bool
			what string
		}
		conds := []cond{
			{"access-mode", func(v uint64) bool { a := v & accMask; return a == consts["O_RDWR"] || a == consts["O_WRONLY"] }, "a write access mode"},
			{"O_CREAT", func(v uint64) bool { return v&consts["O_CREAT"] != 0 }, "O_CREAT (creates a file)"},
			{"O_TRUNC", func(v uint64) bool { return v&consts["O_TRUNC"] != 0 }, "O_TRUNC (truncates the file even when opened read-only)"},
		}
		for _, k := range conds {
			var ex []string
			n := 0
			for _, v := range reached {
				if k.bad(v) {
					n++
					if len(ex) < 3 {
						ex = append(ex, fmt.Sprintf("%s (%#x)", flagNames(v, consts), v))
					}
				}
			}
			c.Check(n == 0, "R17.2", k.key+"@"+name, fd.Pos(),
				fmt.Sprintf("of %d flag values, %d reach the wrapped OpenFile, none with %s", len(dom), len(reached), k.what),
				fmt.Sprintf("%d flag values reach the wrapped OpenFile with %s, e.g. %s", n, k.what, strings.Join(ex, ", ")))
		}
	})
	if !anyDelegate {
		c.Discharge("R17.2", "no-delegated-open@"+wrapper.Obj().Name(), wrapper.Obj().Pos(), "the wrapper never delegates an open")
	}
}

// checkRegistration: in WithReadOnlyDirMount every sys.FS value that leaves the function is the wrapper.
func checkRegistration(c *core.Ctx, regFn *ssa.Function, wrapper, fsNamed *types.Named, emb int) {
	bad := ""
	n := 0
	for _, b := range regFn.Blocks {
		for _, in := range b.Instrs {
			v, ok := in.(ssa.Value)
			if !ok || !types.Identical(v.Type(), fsNamed) {
				continue
			}
			// an FS-typed value: either the wrapper made into an interface, or a value whose only uses are
			// stores into the wrapper's embedded field
			if mi, ok := v.(*ssa.MakeInterface); ok && core.NamedOf(mi.X.Type()) == wrapper {
				n++
				continue
			}
			for _, u := range *v.Referrers() {
				switch x := u.(type) {
				case *ssa.Store:
					fa, ok := x.Addr.(*ssa.FieldAddr)
					if ok && x.Val == v && core.NamedOf(fa.X.Type()) == wrapper && fa.Field == emb {
						if _, isAlloc := fa.X.(*ssa.Alloc); isAlloc {
							continue
						}
					}
					bad += fmt.Sprintf("unwrapped sys.FS value %s stored at %s; ", v.Name(), c.Pos(x.Pos()))
				case *ssa.DebugRef:
				default:
					bad += fmt.Sprintf("unwrapped sys.FS value %s used by %T at %s; ", v.Name(), u, c.Pos(u.Pos()))
				}
			}
		}
	}
	// values loaded back from the wrapper's embedded field
	for _, b := range regFn.Blocks {
		for _, in := range b.Instrs {
			if fa, ok := in.(*ssa.FieldAddr); ok && core.NamedOf(fa.X.Type()) == wrapper && fa.Field == emb {
				for _, u := range *fa.Referrers() {
					if un, ok := u.(*ssa.UnOp); ok {
						bad += fmt.Sprintf("reads the wrapped FS back out of the wrapper at %s; ", c.Pos(un.Pos()))
					}
				}
			}
		}
	}
	c.Check(bad == "" && n > 0, "R17.3", "registration: "+core.SSAFuncName(regFn), regFn.Pos(),
		"the only sys.FS value leaving the function is the wrapper", bad+fmt.Sprintf("(wrapper values registered: %d)", n))
}

// checkNoBypass: nobody outside the wrappers' own methods reads the embedded fields or asserts to the wrapper types.
func checkNoBypass(c *core.Ctx, wrapper, fileWrapper *types.Named, embFS, embFile int) {
	isWrapperMethod := func(fn *ssa.Function) bool {
		for fn.Parent() != nil {
			fn = fn.Parent()
		}
		if fn.Signature.Recv() == nil {
			return false
		}
		n := core.NamedOf(fn.Signature.Recv().Type())
		return n == wrapper || n == fileWrapper
	}
	var bad []string
	sites := 0
	for fn := range c.AllFunctions() {
		if !core.InModule(fn) || fn.Blocks == nil {
			continue
		}
		for _, b := range fn.Blocks {
			for _, in := range b.Instrs {
				switch x := in.(type) {
				case *ssa.FieldAddr:
					n := core.NamedOf(x.X.Type())
					if (n == wrapper && x.Field == embFS) || (n == fileWrapper && x.Field == embFile) {
						sites++
						if isWrapperMethod(fn) {
							// inside the wrappers the wrapped value may only be the receiver of a method call:
							// returning, storing, passing or converting it hands the unguarded value out.
							for _, u := range *x.Referrers() {
								ld, ok := u.(*ssa.UnOp)
								if !ok {
									if st, isStore := u.(*ssa.Store); isStore && st.Addr == x {
										if _, fresh := x.X.(*ssa.Alloc); !fresh {
											bad = append(bad, fmt.Sprintf("%s rewrites the wrapped value at %s", core.SSAFuncName(fn), c.Pos(u.Pos())))
										}
									}
									continue
								}
								for _, uu := range *ld.Referrers() {
									switch y := uu.(type) {
									case ssa.CallInstruction:
										if y.Common().IsInvoke() && y.Common().Value == ld {
											argEscape := false
											for _, a := range y.Common().Args {
												if a == ld {
													argEscape = true
												}
											}
											if !argEscape {
												continue
											}
										}
										bad = append(bad, fmt.Sprintf("%s passes the wrapped value on at %s", core.SSAFuncName(fn), c.Pos(uu.Pos())))
									case *ssa.DebugRef:
									default:
										bad = append(bad, fmt.Sprintf("%s lets the wrapped value escape (%T) at %s", core.SSAFuncName(fn), uu, c.Pos(uu.Pos())))
									}
								}
							}
							continue
						}
						for _, u := range *x.Referrers() {
							switch uu := u.(type) {
							case *ssa.Store:
								if uu.Addr == x {
									if _, fresh := x.X.(*ssa.Alloc); fresh {
										continue // construction of a new wrapper
									}
								}
								bad = append(bad, fmt.Sprintf("%s rewrites the wrapped value at %s", core.SSAFuncName(fn), c.Pos(u.Pos())))
							case *ssa.DebugRef:
							default:
								bad = append(bad, fmt.Sprintf("%s reads the wrapped value out of the wrapper at %s", core.SSAFuncName(fn), c.Pos(u.Pos())))
							}
						}
					}
				case *ssa.Field:
					n := core.NamedOf(x.X.Type())
					if (n == wrapper && x.Field == embFS) || (n == fileWrapper && x.Field == embFile) {
						sites++
						if !isWrapperMethod(fn) {
							bad = append(bad, fmt.Sprintf("%s reads the wrapped value out of the wrapper at %s", core.SSAFuncName(fn), c.Pos(x.Pos())))
						}
					}
				case *ssa.TypeAssert:
					n := core.NamedOf(x.AssertedType)
					if n == wrapper || n == fileWrapper {
						sites++
						bad = append(bad, fmt.Sprintf("%s type-asserts to the wrapper type %s at %s", core.SSAFuncName(fn), n.Obj().Name(), c.Pos(x.Pos())))
					}
				}
			}
		}
	}
	sort.Strings(bad)
	c.Count("embedded_field_access_sites", sites)
	c.Check(len(bad) == 0, "R17.3", "bypass: embedded fields of "+wrapper.Obj().Name()+"/"+fileWrapper.Obj().Name(), wrapper.Obj().Pos(),
		fmt.Sprintf("%d accesses to the embedded fields, all inside the wrappers' methods or constructing a new wrapper; no type assertion to the wrapper types", sites), strings.Join(bad, "; "))
}

// hostMutators: functions of os/syscall that change the file system.
func isHostMutator(f *ssa.Function) string {
	pkg := core.ExtPkg(f)
	name := f.Name()
	recv := ""
	if f.Signature != nil && f.Signature.Recv() != nil {
		if n := core.NamedOf(f.Signature.Recv().Type()); n != nil {
			recv = n.Obj().Name()
		}
	}
	switch pkg {
	case "os":
		if recv == "File" {
			switch name {
			case "Write", "WriteAt", "WriteString", "Truncate", "Chmod", "Chown", "Sync", "ReadFrom", "WriteTo":
				if name == "WriteTo" {
					return ""
				}
				return "sink:os.File." + name
			}
			return ""
		}
		if recv != "" {
			return ""
		}
		switch name {
		case "Create", "CreateTemp", "OpenFile", "Remove", "RemoveAll", "Rename", "Mkdir", "MkdirAll", "MkdirTemp", "Chmod", "Chown", "Lchown", "Chtimes", "Truncate", "Link", "Symlink", "WriteFile":
			return "sink:os." + name
		}
	case "syscall", "golang.org/x/sys/unix":
		switch name {
		case "Open", "Openat", "Creat", "Unlink", "Unlinkat", "Rename", "Renameat", "Mkdir", "Mkdirat", "Rmdir", "Chmod", "Fchmod", "Fchmodat", "Chown", "Fchown", "Link", "Symlink", "Truncate", "Ftruncate",
			"Utimes", "UtimesNano", "Futimes", "Futimesat", "Write", "Pwrite", "Fsync", "Fdatasync", "Syscall", "Syscall6", "RawSyscall", "RawSyscall6",
			"CreateFile", "DeleteFile", "MoveFile", "MoveFileEx", "RemoveDirectory", "CreateDirectory", "SetFileTime", "SetEndOfFile", "WriteFile", "SetFileAttributes", "CreateSymbolicLink", "CreateHardLink", "SetFileInformationByHandle":
			return "sink:" + pkg + "." + name
		}
	}
	return ""
}

// windowsOpenExisting: syscall.CreateFile with OPEN_EXISTING and no write access is a stat-style open.
func classifyMutatorSite(site ssa.Instruction, f *ssa.Function) string {
	if f.Name() != "CreateFile" || core.ExtPkg(f) != "syscall" {
		return ""
	}
	ci, ok := site.(ssa.CallInstruction)
	if !ok || len(ci.Common().Args) < 5 {
		return ""
	}
	acc, ok1 := ci.Common().Args[1].(*ssa.Const)
	mode, ok2 := ci.Common().Args[4].(*ssa.Const)
	if ok1 && ok2 && mode.Value != nil && mode.Uint64() == 3 /* OPEN_EXISTING */ && (acc.Value == nil || acc.Uint64()&0x40000000 == 0 /* GENERIC_WRITE */) {
		return "pure"
	}
	return ""
}

func methodsOf(c *core.Ctx, n *types.Named) []*ssa.Function {
	var out []*ssa.Function
	ms := c.SSA().MethodSets.MethodSet(types.NewPointer(n))
	for i := 0; i < ms.Len(); i++ {
		if f := c.SSA().MethodValue(ms.At(i)); f != nil {
			out = append(out, f)
		}
	}
	return out
}

func isEmbedderIface(t types.Type) string {
	n := core.NamedOf(t)
	if n == nil || n.Obj().Pkg() == nil {
		return ""
	}
	if _, ok := n.Underlying().(*types.Interface); !ok {
		return ""
	}
	switch n.Obj().Pkg().Path() {
	case "io", "io/fs":
		return n.Obj().Pkg().Path() + "." + n.Obj().Name()
	}
	return ""
}

// checkAdapter: the fs.FS adapter (the type WithFSMount registers) and the file type it opens reach no host mutator.
func checkAdapter(c *core.Ctx, fsNamed, fileNamed *types.Named) {
	_, fsCfgIface := lookupIface(c, "", "FSConfig")
	prog := c.SSA()
	var reg *ssa.Function
	root := c.Pkg("")
	for _, n := range root.Types.Scope().Names() {
		tn, ok := root.Types.Scope().Lookup(n).(*types.TypeName)
		if !ok {
			continue
		}
		named, ok := tn.Type().(*types.Named)
		if !ok || !types.Implements(types.NewPointer(named), fsCfgIface) {
			continue
		}
		if _, isStruct := named.Underlying().(*types.Struct); !isStruct {
			continue
		}
		if o, _, _ := types.LookupFieldOrMethod(types.NewPointer(named), true, root.Types, "WithFSMount"); o != nil {
			if f, ok := o.(*types.Func); ok {
				reg = prog.FuncValue(f)
			}
		}
	}
	if reg == nil || reg.Blocks == nil {
		c.Undecided("R17.3", "adapter: registration", 0, "implementation of FSConfig.WithFSMount not found")
		return
	}
	var adapters []*types.Named
	for _, b := range reg.Blocks {
		for _, in := range b.Instrs {
			if mi, ok := in.(*ssa.MakeInterface); ok && types.Identical(mi.Type(), fsNamed) {
				if n := core.NamedOf(mi.X.Type()); n != nil {
					adapters = append(adapters, n)
				}
			}
		}
	}
	if len(adapters) == 0 {
		c.Undecided("R17.3", "adapter: type", reg.Pos(), "WithFSMount does not build a concrete sys.FS adapter")
		return
	}
	var roots []*ssa.Function
	for _, a := range adapters {
		roots = append(roots, methodsOf(c, a)...)
	}
	k := &core.Cap{C: c, Roots: roots, ClassifySite: classifyMutatorSite,
		ClassifyExt: func(f *ssa.Function) string {
			if s := isHostMutator(f); s != "" {
				return s
			}
			return "pure"
		},
		Cut: func(site ssa.CallInstruction, in *ssa.Function) string {
			cc := site.Common()
			if cc.IsInvoke() {
				return isEmbedderIface(cc.Value.Type())
			}
			return ""
		},
	}
	k.Run()
	// files the adapter hands out: concrete types made into sys.File in the reached region; their methods are roots too
	for iter := 0; iter < 3; iter++ {
		var more []*ssa.Function
		for fn := range k.Reached {
			for _, b := range fn.Blocks {
				for _, in := range b.Instrs {
					if mi, ok := in.(*ssa.MakeInterface); ok {
						if n := core.NamedOf(mi.X.Type()); n != nil && n.Obj().Pkg() != nil && strings.HasPrefix(n.Obj().Pkg().Path(), core.Module) {
							if it, ok := mi.Type().Underlying().(*types.Interface); ok && it.NumMethods() > 0 {
								more = append(more, methodsOf(c, n)...)
							}
						}
					}
				}
			}
		}
		before := len(k.Reached)
		k.Roots = append(k.Roots, more...)
		k.Run()
		if len(k.Reached) == before {
			break
		}
	}
	var bad []string
	for _, s := range k.Sinks {
		bad = append(bad, fmt.Sprintf("%s called at %s via %s", s.Callee, c.Pos(s.Site), k.Path(s.In)))
	}
	names := ""
	for _, a := range adapters {
		names += a.Obj().Name() + " "
	}
	c.Count("adapter_region_functions", len(k.Reached))
	c.Check(len(bad) == 0, "R17.3", "adapter: "+strings.TrimSpace(names)+" reaches no host mutator", reg.Pos(),
		fmt.Sprintf("%d functions reachable from the adapter's and its files' method sets; calls through embedder interfaces cut: %v", len(k.Reached), k.Cuts), strings.Join(bad, "; "))
}

// wasiFuncs returns the host functions of the WASI module: function values converted to the named func type that
// implements api.GoModuleFunction in imports/wasi_snapshot_preview1.
func wasiFuncs(c *core.Ctx) []*ssa.Function {
	p := c.SSAPkg("imports/wasi_snapshot_preview1")
	if p == nil {
		return nil
	}
	_, gmf := lookupIface(c, "api", "GoModuleFunction")
	seen := map[*ssa.Function]bool{}
	var out []*ssa.Function
	for fn := range c.AllFunctions() {
		if fn.Package() != p && (fn.Parent() == nil || fn.Parent().Package() != p) {
			continue
		}
		for _, b := range fn.Blocks {
			for _, in := range b.Instrs {
				var v ssa.Value
				var to types.Type
				switch x := in.(type) {
				case *ssa.ChangeType:
					v, to = x.X, x.Type()
				case *ssa.MakeInterface:
					v, to = x.X, x.X.Type()
				default:
					continue
				}
				n, _ := to.(*types.Named)
				if n == nil || gmf == nil || !types.Implements(n, gmf) {
					continue
				}
				if _, isFn := n.Underlying().(*types.Signature); !isFn {
					continue
				}
				if ct, ok := v.(*ssa.ChangeType); ok {
					v = ct.X
				}
				if f, ok := v.(*ssa.Function); ok && !seen[f] {
					seen[f] = true
					out = append(out, f)
				}
			}
		}
	}
	sort.Slice(out, func(i, j int) bool { return out[i].Name() < out[j].Name() })
	return out
}

func isMountIface(t types.Type) string {
	n := core.NamedOf(t)
	if n == nil || n.Obj().Pkg() == nil {
		return ""
	}
	if _, ok := n.Underlying().(*types.Interface); !ok {
		return ""
	}
	switch n.Obj().Pkg().Path() {
	case core.Module + "/experimental/sys":
		if n.Obj().Name() == "FS" || n.Obj().Name() == "File" {
			return "sys." + n.Obj().Name()
		}
	case core.Module + "/internal/fsapi":
		if n.Obj().Name() == "File" {
			return "fsapi.File"
		}
	case core.Module + "/internal/sock":
		return "sock." + n.Obj().Name()
	}
	return ""
}

func checkWasiThroughMount(c *core.Ctx) {
	roots := wasiFuncs(c)
	if len(roots) < 40 {
		c.Undecided("R17.4", "wasi-entry-points", 0, fmt.Sprintf("only %d WASI host functions found", len(roots)))
		return
	}
	k := &core.Cap{C: c, Roots: roots, ClassifySite: classifyMutatorSite,
		ClassifyExt: func(f *ssa.Function) string {
			if s := isHostMutator(f); s != "" {
				return s
			}
			return "pure"
		},
		Cut: func(site ssa.CallInstruction, in *ssa.Function) string {
			cc := site.Common()
			if cc.IsInvoke() {
				if s := isMountIface(cc.Value.Type()); s != "" {
					return s
				}
				return isEmbedderIface(cc.Value.Type())
			}
			return ""
		},
	}
	k.Run()
	var bad []string
	for _, s := range k.Sinks {
		bad = append(bad, fmt.Sprintf("%s called at %s via %s", s.Callee, c.Pos(s.Site), k.Path(s.In)))
	}
	c.Count("wasi_functions", len(roots))
	c.Count("wasi_region_functions", len(k.Reached))
	c.Check(len(bad) == 0, "R17.4", "wasi: host mutation only through the mount interfaces", roots[0].Pos(),
		fmt.Sprintf("%d WASI functions, %d module functions reachable without crossing sys.FS/sys.File/fsapi.File; no os/syscall mutator among their callees; cuts: %v", len(roots), len(k.Reached), k.Cuts),
		strings.Join(bad, "; "))
}
