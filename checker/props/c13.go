package props

import (
	"fmt"
	"go/ast"
	"go/token"
	"go/types"
	"sort"
	"strings"

	"golang.org/x/tools/go/packages"
	"golang.org/x/tools/go/ssa"

	"verif/checker/core"
)

// C13 The on-disk compilation cache is deterministic and crash-safe (structural clauses).

func init() {
	core.Register(&core.Property{
		ID:    "C13",
		Level: "other",
		Explanation: "Decided (typestate clause completely, for every crash point between statements): (R13.1) every implementation of filecache.Cache.Add writes the entry to a uniquely named temporary file in the destination directory (os.CreateTemp), then copy → Sync → Close → Rename(temp, final) in that order, " +
			"each step's error is checked and returns before the rename, the temporary file is removed on error, and nothing else in the package can create a file under a final name; with POSIX rename atomicity a crash leaves either no entry or a complete one. " +
			"(R13.2) the loader checks every read (error and length), tests magic and version before using the content, installs the executable only after the CRC comparison, deletes stale entries and reports a miss on every error so that the module is compiled afresh. " +
			"(R13.3) the sequence of fixed-width fields written by the serialiser equals the sequence read by the deserialiser. (R13.4) on the compile path no iteration over a map feeds the emitted bytes (each map range is classified). " +
			"(R13.5) the serialised bytes handed to the cache live in memory allocated by that call (not pooled/shared). NOT decided: byte-equality of two compilations, durability of the directory entry after rename.",
		Assumptions: []string{"POSIX rename(2) atomically replaces the destination", "os.CreateTemp yields a name no other writer uses"},
		Rules: []core.Rule{
			{ID: "R13.6", Template: "T-ORDER", Text: "a compiled module is entered into the in-memory map only when it is complete (genuine defect found and fixed: cache hits published before the entry preambles were built)", Min: 2},
			{ID: "R13.1", Template: "T-TYPESTATE", Text: "Add: unique temp → copy → sync → close → rename, errors checked, temp removed on error, no other creator of final names", Min: 7},
			{ID: "R13.2", Template: "T-MUSTPASS", Text: "load: every read checked (error and length), magic/version first, executable installed only after the CRC test, stale entries deleted, errors are misses", Min: 5},
			{ID: "R13.3", Template: "T-SIBLING", Text: "serialiser and deserialiser agree on the field sequence", Min: 1},
			{ID: "R13.4", Template: "T-DETERM", Text: "map iteration on the compile path is classified order-insensitive", Min: 1},
			{ID: "R13.5", Template: "T-OWN", Text: "the serialised entry is backed by memory allocated in the serialising call", Min: 1},
		},
		Run: runC13,
		Controls: []core.Control{
			{Name: "cache-hit-published-before-preambles", File: "internal/engine/wazevo/engine_cache.go", Old: "\t\tssaBuilder := ssa.NewBuilder()\n\t\tmachine := newMachine()\n", New: "\t\tif err = e.addCompiledModuleToMemory(module, cm); err != nil {\n\t\t\treturn nil, false, err\n\t\t}\n\t\tssaBuilder := ssa.NewBuilder()\n\t\tmachine := newMachine()\n", Rule: "R13.6", Substr: "getCompiledModule"},
			{Name: "rename-before-sync", File: "internal/filecache/file_cache.go", Old: "\tif err = file.Sync(); err != nil {\n\t\treturn\n\t}\n\tif err = file.Close(); err != nil {\n\t\treturn\n\t}\n\terr = os.Rename(file.Name(), path)\n\treturn", New: "\tif err = os.Rename(file.Name(), path); err != nil {\n\t\treturn\n\t}\n\tif err = file.Sync(); err != nil {\n\t\treturn\n\t}\n\terr = file.Close()\n\treturn", Rule: "R13.1", Substr: "order"},
			{Name: "sync-error-ignored", File: "internal/filecache/file_cache.go", Old: "\tif err = file.Sync(); err != nil {\n\t\treturn\n\t}\n", New: "\t_ = file.Sync()\n", Rule: "R13.1", Substr: "Sync"},
			{Name: "fixed-temp-name", File: "internal/filecache/file_cache.go", Old: "file, err := os.CreateTemp(dirPath, fileName+\".*.tmp\")", New: "_ = dirPath\n\tfile, err := os.OpenFile(path+fileName[:0]+\".tmp\", os.O_WRONLY|os.O_CREATE|os.O_TRUNC, 0o600)", Rule: "R13.1", Substr: "temp"},
			{Name: "no-sync", File: "internal/filecache/file_cache.go", Old: "\tif err = file.Sync(); err != nil {\n\t\treturn\n\t}\n", New: "", Rule: "R13.1", Substr: "Sync"},
			{Name: "executable-before-crc", File: "internal/engine/wazevo/engine_cache.go", Old: "\texpected := crc32.Checksum(executable, crc)\n", New: "\tcm.executable = executable\n\texpected := crc32.Checksum(executable, crc)\n", Rule: "R13.2", Substr: "CRC"},
			{Name: "checksum-read-only-with-code", File: "internal/engine/wazevo/engine_cache.go", Old: "\tif _, err = io.ReadFull(reader, eightBytes[:4]); err != nil {\n\t\treturn nil, false, fmt.Errorf(\"compilationcache: could not read checksum: %v\", err)\n\t} else if checksum := binary.LittleEndian.Uint32(eightBytes[:4]); expected != checksum {\n\t\treturn nil, false, fmt.Errorf(\"compilationcache: checksum mismatch (expected %d, got %d)\", expected, checksum)\n\t}\n", New: "\tif executableLen > 0 {\n\tif _, err = io.ReadFull(reader, eightBytes[:4]); err != nil {\n\t\treturn nil, false, fmt.Errorf(\"compilationcache: could not read checksum: %v\", err)\n\t} else if checksum := binary.LittleEndian.Uint32(eightBytes[:4]); expected != checksum {\n\t\treturn nil, false, fmt.Errorf(\"compilationcache: checksum mismatch (expected %d, got %d)\", expected, checksum)\n\t}\n\t}\n", Rule: "R13.3", Substr: "layout"},
			{Name: "short-read-accepted", File: "internal/engine/wazevo/engine_cache.go", Old: "\t} else if n < 8 { // more strict than reader.Read\n\t\treturn 0, io.EOF\n\t}\n", New: "\t}\n\t_ = n\n", Rule: "R13.2", Substr: "length"},
			{Name: "stale-not-deleted", File: "internal/engine/wazevo/engine_cache.go", Old: "\t\treturn nil, false, e.fileCache.Delete(fileCacheKey(module))", New: "\t\treturn nil, false, nil", Rule: "R13.2", Substr: "stale"},
			{Name: "layout-width-mismatch", File: "internal/engine/wazevo/engine_cache.go", Old: "\t// The length of code segment (8 bytes).\n\tbuf.Write(u64.LeBytes(uint64(len(cm.executable))))", New: "\t// The length of code segment.\n\tbuf.Write(u32.LeBytes(uint32(len(cm.executable))))", Rule: "R13.3", Substr: "layout"},
			{Name: "pooled-buffer", File: "internal/engine/wazevo/engine_cache.go", Old: "\tbuf := bytes.NewBuffer(nil)\n\t// First 6 byte: WAZEVO header.", New: "\tbuf := serBuf\n\tbuf.Reset()\n\t// First 6 byte: WAZEVO header.", Rule: "R13.5", Substr: "serial", Old2: "var magic = ", New2: "var serBuf = bytes.NewBuffer(nil)\n\nvar magic = "},
		},
		Configs: []core.BuildCfg{{GOOS: "linux", GOARCH: "arm64"}, {GOOS: "windows", GOARCH: "amd64"}},
	})
}

func extCallee(info *types.Info, call *ast.CallExpr) (pkg, recv, name string) {
	f := core.Callee(info, call)
	if f == nil {
		return
	}
	if f.Pkg() != nil {
		pkg = f.Pkg().Path()
	}
	return pkg, core.RecvNameOf(f), f.Name()
}

func runC13(c *core.Ctx) {
	checkPublishAfterComplete(c)
	checkCacheAdd(c)
	checkCacheLoad(c)
	checkCacheLayout(c)
	checkCompileDeterminism(c)
	checkSerializedOwnership(c)
}

// ---- R13.1
func checkCacheAdd(c *core.Ctx) {
	fp := c.Pkg("internal/filecache")
	if fp == nil {
		c.Undecided("R13.1", "filecache", 0, "package not loaded")
		return
	}
	_, cacheIface := lookupIface(c, "internal/filecache", "Cache")
	info := fp.TypesInfo
	found := 0
	core.AllFuncDecls(fp, func(fd *ast.FuncDecl) {
		if fd.Name.Name != "Add" || fd.Recv == nil {
			return
		}
		if rt := core.NamedOf(info.Defs[fd.Name].(*types.Func).Type().(*types.Signature).Recv().Type()); rt == nil || cacheIface == nil || !types.Implements(types.NewPointer(rt), cacheIface) {
			return
		}
		found++
		name := core.FuncName(fp, fd)
		type step struct {
			idx     int
			pos     token.Pos
			checked bool
		}
		steps := map[string]*step{}
		var tempObj types.Object
		uniqueTemp := false
		tempWhy := "no temporary file is created with os.CreateTemp"
		// scan top-level statements in order
		for i, s := range fd.Body.List {
			var call *ast.CallExpr
			var errChecked bool
			var lhs []ast.Expr
			switch x := s.(type) {
			case *ast.AssignStmt:
				if len(x.Rhs) == 1 {
					call, _ = x.Rhs[0].(*ast.CallExpr)
					lhs = x.Lhs
				}
				// checked by the following statement `if err != nil { return }` on the variable assigned here
				assignsErr := func(obj types.Object) bool {
					for _, l := range x.Lhs {
						if id, ok := l.(*ast.Ident); ok && id.Name != "_" && (info.Defs[id] == obj || info.Uses[id] == obj) && obj != nil {
							return true
						}
					}
					return false
				}
				if i+1 < len(fd.Body.List) {
					if is, ok := fd.Body.List[i+1].(*ast.IfStmt); ok && is.Init == nil && isErrNotNilReturn(info, is) {
						if be, ok := is.Cond.(*ast.BinaryExpr); ok {
							if id, ok := be.X.(*ast.Ident); ok && assignsErr(info.Uses[id]) {
								errChecked = true
							}
						}
					}
				}
				// the last statement assigning err before a bare return is checked by the caller (named result)
				if i+2 == len(fd.Body.List) {
					if _, ok := fd.Body.List[i+1].(*ast.ReturnStmt); ok {
						for _, l := range x.Lhs {
							if id, ok := l.(*ast.Ident); ok && id.Name != "_" {
								errChecked = true
							}
						}
					}
				}
			case *ast.IfStmt:
				if as, ok := x.Init.(*ast.AssignStmt); ok && len(as.Rhs) == 1 {
					call, _ = as.Rhs[0].(*ast.CallExpr)
					lhs = as.Lhs
					errChecked = isErrNotNilReturn(info, x)
				}
			case *ast.ExprStmt:
				call, _ = x.X.(*ast.CallExpr)
			}
			if call == nil {
				continue
			}
			pkg, recv, nm := extCallee(info, call)
			key := ""
			switch {
			case pkg == "os" && recv == "" && nm == "CreateTemp":
				key = "temp"
				uniqueTemp = true
				if len(lhs) > 0 {
					if id, ok := lhs[0].(*ast.Ident); ok {
						tempObj = info.Defs[id]
						if tempObj == nil {
							tempObj = info.Uses[id]
						}
					}
				}
			case pkg == "os" && recv == "" && (nm == "OpenFile" || nm == "Create"):
				key = "temp"
				tempWhy = fmt.Sprintf("the temporary file is opened with os.%s under a name derived from the key (not unique): two writers of one key share the file, and one's rename can publish the other's half-written content", nm)
				// O_EXCL would make it exclusive
				for _, a := range call.Args {
					if strings.Contains(core.ExprStr(a), "O_EXCL") {
						uniqueTemp = true
					}
				}
				if len(lhs) > 0 {
					if id, ok := lhs[0].(*ast.Ident); ok {
						tempObj = info.Defs[id]
					}
				}
			case pkg == "io" && nm == "Copy":
				key = "copy"
			case pkg == "os" && recv == "File" && nm == "Sync":
				key = "Sync"
			case pkg == "os" && recv == "File" && nm == "Close":
				key = "Close"
			case pkg == "os" && recv == "" && nm == "Rename":
				key = "Rename"
			}
			if key != "" {
				steps[key] = &step{i, call.Pos(), errChecked}
			}
		}
		c.Check(uniqueTemp, "R13.1", "unique temp file in "+name, fd.Pos(), "created with os.CreateTemp in the destination directory", tempWhy)
		order := []string{"temp", "copy", "Sync", "Close", "Rename"}
		var missing []string
		for _, k := range order {
			if steps[k] == nil {
				missing = append(missing, k)
			}
		}
		if len(missing) > 0 {
			for _, k := range missing {
				c.Violate("R13.1", "step "+k+" in "+name, fd.Pos(), "the write protocol has no "+k+" step: a crash can leave an entry under its final name whose content never reached the disk")
			}
		}
		ordered := true
		prev := -1
		for _, k := range order {
			if st := steps[k]; st != nil {
				if st.idx < prev {
					ordered = false
				}
				prev = st.idx
			}
		}
		c.Check(ordered && len(missing) == 0, "R13.1", "order of steps in "+name, fd.Pos(), "create-temp < copy < Sync < Close < Rename", "the steps are not in the order create-temp, copy, Sync, Close, Rename: the final name can appear before the content is complete and durable")
		for _, k := range order {
			if st := steps[k]; st != nil {
				c.Check(st.checked, "R13.1", "error of "+k+" checked in "+name, st.pos, "failure returns before the rename", "the error of the "+k+" step is not checked: on failure the function goes on and renames an incomplete file to its final name")
			}
		}
		// temp removed on error: a deferred function literal that calls os.Remove under err != nil
		removes := false
		ast.Inspect(fd.Body, func(n ast.Node) bool {
			if ds, ok := n.(*ast.DeferStmt); ok {
				// the deferred function: a literal, or a named function of the package
				var body *ast.BlockStmt
				if fl, ok := ds.Call.Fun.(*ast.FuncLit); ok {
					body = fl.Body
				} else if f := core.Callee(info, ds.Call); f != nil && f.Pkg() == fp.Types {
					if hd := declOf(fp, f); hd != nil {
						body = hd.Body
					}
				}
				if body != nil {
					ast.Inspect(body, func(m ast.Node) bool {
						if is, ok := m.(*ast.IfStmt); ok {
							if be, ok := is.Cond.(*ast.BinaryExpr); ok && be.Op == token.NEQ {
								ast.Inspect(is.Body, func(k ast.Node) bool {
									if call, ok := k.(*ast.CallExpr); ok {
										if p, _, nm := extCallee(info, call); p == "os" && nm == "Remove" {
											removes = true
										}
									}
									return true
								})
							}
						}
						return true
					})
				}
			}
			return true
		})
		c.Check(removes, "R13.1", "temp removed on error in "+name, fd.Pos(), "a deferred function removes the temporary file when the function fails", "a failed Add leaves its temporary file behind")
		// rename source is the temp file's name, destination the final path
		if st := steps["Rename"]; st != nil && tempObj != nil {
			okSrc := false
			ast.Inspect(fd.Body, func(n ast.Node) bool {
				if call, ok := n.(*ast.CallExpr); ok && call.Pos() == st.pos && len(call.Args) == 2 {
					if src, ok := call.Args[0].(*ast.CallExpr); ok {
						if se, ok := src.Fun.(*ast.SelectorExpr); ok && se.Sel.Name == "Name" {
							if id, ok := se.X.(*ast.Ident); ok && info.Uses[id] == tempObj {
								okSrc = true
							}
						}
					}
				}
				return true
			})
			c.Check(okSrc, "R13.1", "rename source is the temp file in "+name, st.pos, "Rename(temp.Name(), final)", "the rename does not move the temporary file that was just written")
		}
	})
	if found == 0 {
		c.Undecided("R13.1", "Cache.Add implementations", 0, "no implementation of filecache.Cache.Add found")
	}
	// who may create files in the package
	var creators []string
	core.AllFuncDecls(fp, func(fd *ast.FuncDecl) {
		ast.Inspect(fd.Body, func(n ast.Node) bool {
			if call, ok := n.(*ast.CallExpr); ok {
				pkg, recv, nm := extCallee(info, call)
				if pkg == "os" && recv == "" {
					switch nm {
					case "Create", "OpenFile", "WriteFile", "Link", "Symlink":
						creators = append(creators, fmt.Sprintf("os.%s in %s at %s", nm, fd.Name.Name, c.Pos(call.Pos())))
					case "Rename":
						if fd.Name.Name != "Add" {
							creators = append(creators, fmt.Sprintf("os.Rename in %s at %s", fd.Name.Name, c.Pos(call.Pos())))
						}
					}
				}
			}
			return true
		})
	})
	sort.Strings(creators)
	c.Check(len(creators) == 0, "R13.1", "only Rename creates final names in internal/filecache", 0, "no os.Create/OpenFile/WriteFile/Link/Symlink and no Rename outside Add", "other ways to create a cache file: "+strings.Join(creators, "; "))
}

func isErrNotNilReturn(info *types.Info, is *ast.IfStmt) bool {
	be, ok := is.Cond.(*ast.BinaryExpr)
	if !ok || be.Op != token.NEQ {
		return false
	}
	if id, ok := be.Y.(*ast.Ident); !ok || id.Name != "nil" {
		return false
	}
	for _, s := range is.Body.List {
		if _, ok := s.(*ast.ReturnStmt); ok {
			return true
		}
	}
	return false
}

// ---- R13.2
func checkCacheLoad(c *core.Ctx) {
	for _, rel := range []string{"internal/engine/wazevo"} {
		ep := c.Pkg(rel)
		if ep == nil {
			continue
		}
		// deserialiser: function with an io.ReadCloser/io.Reader parameter returning (*compiledModule, bool, error)
		var deser *ssa.Function
		for _, fn := range moduleFns(c, rel) {
			if fn.Parent() != nil || fn.Signature.Results().Len() != 3 || fn.Signature.Recv() != nil {
				continue
			}
			if basicKind(fn.Signature.Results().At(1).Type()) != types.Bool {
				continue
			}
			for _, p := range fn.Params {
				if strings.HasPrefix(p.Type().String(), "io.Read") {
					deser = fn
				}
			}
		}
		if deser == nil {
			c.Undecided("R13.2", "deserialiser", 0, "no func(version, io.ReadCloser) (*compiledModule, stale bool, err error) found")
			continue
		}
		name := core.SSAFuncName(deser)
		// (a) every read checked: Read invokes on io.Reader in the deserialiser and its helpers
		var badReads []string
		nReads := 0
		region := []*ssa.Function{deser}
		for _, b := range deser.Blocks {
			for _, in := range b.Instrs {
				if ci, ok := in.(ssa.CallInstruction); ok {
					if f := ci.Common().StaticCallee(); f != nil && core.InModule(f) && f.Blocks != nil && f.Pkg == deser.Pkg {
						region = append(region, f)
					}
				}
			}
		}
		for _, fn := range region {
			for _, b := range fn.Blocks {
				for _, in := range b.Instrs {
					call, ok := in.(*ssa.Call)
					if !ok {
						continue
					}
					cc := call.Common()
					isRawRead := cc.IsInvoke() && cc.Method.Name() == "Read" && strings.HasPrefix(cc.Value.Type().String(), "io.Read")
					isReadFull := cc.StaticCallee() != nil && cc.StaticCallee().Pkg != nil && cc.StaticCallee().Pkg.Pkg.Path() == "io" && (cc.StaticCallee().Name() == "ReadFull" || cc.StaticCallee().Name() == "ReadAtLeast")
					if !isRawRead && !isReadFull {
						continue
					}
					nReads++
					var nVal, errVal ssa.Value
					for _, u := range *call.Referrers() {
						if ex, ok := u.(*ssa.Extract); ok {
							if ex.Index == 0 {
								nVal = ex
							} else {
								errVal = ex
							}
						}
					}
					var usedInIf func(v ssa.Value) bool
					usedInIf = func(v ssa.Value) bool {
						if v == nil || v.Referrers() == nil {
							return false
						}
						for _, u := range *v.Referrers() {
							// stored into a local cell (named result): follow its loads
							if st, ok := u.(*ssa.Store); ok && st.Val == v {
								if cell, ok := st.Addr.(*ssa.Alloc); ok {
									for _, r := range *cell.Referrers() {
										if ld, ok := r.(*ssa.UnOp); ok && ld.Op == token.MUL && usedInIf(ld) {
											return true
										}
									}
								}
							}
							if bo, ok := u.(*ssa.BinOp); ok && bo.Referrers() != nil {
								for _, uu := range *bo.Referrers() {
									if _, ok := uu.(*ssa.If); ok {
										return true
									}
								}
							}
							if _, isPhi := u.(*ssa.Phi); isPhi {
								return true // named result merged and tested by the caller
							}
						}
						return false
					}
					if !usedInIf(errVal) {
						badReads = append(badReads, "the error of the read at "+c.Pos(call.Pos())+" in "+core.SSAFuncName(fn)+" is not tested")
					}
					if isRawRead && !usedInIf(nVal) {
						badReads = append(badReads, "the length returned by reader.Read at "+c.Pos(call.Pos())+" in "+core.SSAFuncName(fn)+" is not compared (io.Reader may return fewer bytes without an error): a truncated entry is accepted with zero-filled data")
					}
				}
			}
		}
		c.Check(len(badReads) == 0 && nReads >= 4, "R13.2", "every read checked (error and length) in "+name, deser.Pos(), fmt.Sprintf("%d reads, all with error (and, for raw Read, length) tested", nReads), strings.Join(badReads, "; "))

		// (b) executable installed only after the CRC comparison
		cmNamed := namedIn(c, rel, "compiledModule")
		exNamed := namedIn(c, rel, "executables")
		var installs []*ssa.Store
		for _, b := range deser.Blocks {
			for _, in := range b.Instrs {
				if st, ok := in.(*ssa.Store); ok {
					if fa, ok := st.Addr.(*ssa.FieldAddr); ok {
						n := core.NamedOf(fa.X.Type())
						if (n == cmNamed || n == exNamed) && n != nil {
							s := derefStructT(fa.X.Type()).Underlying().(*types.Struct)
							if s.Field(fa.Field).Name() == "executable" {
								installs = append(installs, st)
							}
						}
					}
				}
			}
		}
		if len(installs) == 0 {
			c.Undecided("R13.2", "CRC before install in "+name, deser.Pos(), "no assignment of the executable found")
		}
		for _, st := range installs {
			ok := guardedBy(st.Block(), func(cond ssa.Value) int {
				bo, isB := cond.(*ssa.BinOp)
				if !isB || (bo.Op != token.NEQ && bo.Op != token.EQL) {
					return 0
				}
				isCRC := func(v ssa.Value) bool {
					call, ok := v.(*ssa.Call)
					return ok && call.Common().StaticCallee() != nil && call.Common().StaticCallee().Pkg != nil && call.Common().StaticCallee().Pkg.Pkg.Path() == "hash/crc32"
				}
				if isCRC(bo.X) || isCRC(bo.Y) {
					if bo.Op == token.NEQ {
						return -1
					}
					return 1
				}
				return 0
			})
			c.Check(ok, "R13.2", "CRC before install in "+name, st.Pos(), "the executable is assigned only on the branch where the CRC matches", "the executable read from the cache is installed without a dominating CRC comparison: a corrupted entry is executed")
		}
		// (c) magic and version tested before the rest: the bytes.Equal(magic) and version comparisons happen in blocks that dominate the first allocation of the compiled module
		var firstAlloc *ssa.Alloc
		for _, b := range deser.Blocks {
			for _, in := range b.Instrs {
				if a, ok := in.(*ssa.Alloc); ok && firstAlloc == nil && types.Identical(a.Type().(*types.Pointer).Elem(), cmNamed) {
					firstAlloc = a
				}
			}
		}
		magicOK, versionOK := false, false
		if firstAlloc != nil {
			for _, ib := range deser.Blocks {
				if len(ib.Instrs) == 0 {
					continue
				}
				iff, ok := ib.Instrs[len(ib.Instrs)-1].(*ssa.If)
				if !ok || !(ib == firstAlloc.Block() || ib.Dominates(firstAlloc.Block())) {
					continue
				}
				var walk func(v ssa.Value, d int)
				walk = func(v ssa.Value, d int) {
					if v == nil || d > 4 {
						return
					}
					switch x := v.(type) {
					case *ssa.Call:
						if f := x.Common().StaticCallee(); f != nil && f.Name() == "Equal" && f.Pkg != nil && f.Pkg.Pkg.Path() == "bytes" {
							magicOK = true
						} else if f != nil && f.Blocks != nil && f.Pkg == deser.Pkg {
							// a predicate of the package that makes the comparison (one level)
							for _, pb := range f.Blocks {
								for _, pin := range pb.Instrs {
									switch y := pin.(type) {
									case *ssa.Call:
										if g := y.Common().StaticCallee(); g != nil && g.Name() == "Equal" && g.Pkg != nil && g.Pkg.Pkg.Path() == "bytes" {
											magicOK = true
										}
									case *ssa.BinOp:
										if (y.Op == token.NEQ || y.Op == token.EQL) && isString(y.X.Type()) {
											versionOK = true
										}
									}
								}
							}
						}
					case *ssa.BinOp:
						if (x.Op == token.NEQ || x.Op == token.EQL) && isString(x.X.Type()) {
							versionOK = true
						}
						walk(x.X, d+1)
						walk(x.Y, d+1)
					case *ssa.UnOp:
						walk(x.X, d+1)
					}
				}
				walk(iff.Cond, 0)
			}
		}
		c.Check(magicOK && versionOK, "R13.2", "magic and version first in "+name, deser.Pos(), "the magic bytes and the version string are compared before the compiled module is built", fmt.Sprintf("magic tested=%v version tested=%v before the content is used: an entry written by another wazero version is executed", magicOK, versionOK))

		// (d) caller: stale → Delete; error → miss
		var caller *ssa.Function
		for _, fn := range moduleFns(c, rel) {
			for _, b := range fn.Blocks {
				for _, in := range b.Instrs {
					if ci, ok := in.(ssa.CallInstruction); ok && ci.Common().StaticCallee() == deser {
						caller = fn
					}
				}
			}
		}
		if caller == nil {
			c.Undecided("R13.2", "loader caller", 0, "nobody calls the deserialiser")
			continue
		}
		deletes := false
		for _, b := range caller.Blocks {
			for _, in := range b.Instrs {
				if ci, ok := in.(ssa.CallInstruction); ok && ci.Common().IsInvoke() && ci.Common().Method.Name() == "Delete" && strings.Contains(ci.Common().Value.Type().String(), "filecache") {
					deletes = true
				}
			}
		}
		c.Check(deletes, "R13.2", "stale entry deleted in "+core.SSAFuncName(caller), caller.Pos(), "a stale verdict deletes the entry", "a stale entry (other wazero version) is never deleted: every later start reads and rejects it again")
		// error → hit=false: every Return reachable with a non-nil deserialiser error returns hit=false: check that a store/phi of
		// constant false to the `hit` result exists on the err != nil branch
		missOnErr := false
		for _, b := range caller.Blocks {
			for _, in := range b.Instrs {
				r, ok := in.(*ssa.Return)
				if !ok || len(r.Results) != 3 {
					continue
				}
				if k, ok := r.Results[1].(*ssa.Const); ok && k.Value != nil && k.Value.String() == "false" {
					if guardedBy(b, func(cond ssa.Value) int {
						bo, ok := cond.(*ssa.BinOp)
						if ok && bo.Op == token.NEQ {
							if kk, ok := bo.Y.(*ssa.Const); ok && kk.IsNil() {
								return 1
							}
						}
						return 0
					}) {
						missOnErr = true
					}
				}
			}
		}
		c.Check(missOnErr, "R13.2", "load error is a miss in "+core.SSAFuncName(caller), caller.Pos(), "on a deserialisation error the function reports hit=false", "a deserialisation error is not turned into a cache miss: the module is not compiled afresh")
	}
}

// ---- R13.3 layout tokens
var layoutDepth int

func layoutTokens(c *core.Ctx, p *packages.Package, body *ast.BlockStmt, writer bool) []string {
	info := p.TypesInfo
	var out []string
	widthOfLeBytes := func(e ast.Expr) string {
		if call, ok := ast.Unparen(e).(*ast.CallExpr); ok {
			if f := core.Callee(info, call); f != nil && f.Name() == "LeBytes" && f.Pkg() != nil {
				if strings.HasSuffix(f.Pkg().Path(), "/u32") {
					return "u32"
				}
				if strings.HasSuffix(f.Pkg().Path(), "/u64") {
					return "u64"
				}
			}
		}
		return ""
	}
	// locals bound once to an expression (s := b[:4]) stand for that expression
	localDef := map[types.Object]ast.Expr{}
	ast.Inspect(body, func(n ast.Node) bool {
		if as, ok := n.(*ast.AssignStmt); ok && as.Tok == token.DEFINE && len(as.Lhs) == len(as.Rhs) {
			for i, l := range as.Lhs {
				if id, ok := l.(*ast.Ident); ok && info.Defs[id] != nil {
					localDef[info.Defs[id]] = as.Rhs[i]
				}
			}
		}
		return true
	})
	resolveLocal := func(e ast.Expr) ast.Expr {
		if id, ok := ast.Unparen(e).(*ast.Ident); ok {
			if d, ok := localDef[info.Uses[id]]; ok {
				return d
			}
		}
		return e
	}
	var walk func(list []ast.Stmt)
	walk = func(list []ast.Stmt) {
		for si, s := range list {
			// `if <a byte just read> != 1 { return }` in front of the rest: the rest is the optional part
			if is, ok := s.(*ast.IfStmt); ok && is.Else == nil && len(is.Body.List) == 1 && si+1 < len(list) {
				if rs, isRet := is.Body.List[0].(*ast.ReturnStmt); isRet && len(rs.Results) == 0 {
					mentionsByte := false
					scan := func(n ast.Node) {
						ast.Inspect(n, func(y ast.Node) bool {
							if ix, ok := y.(*ast.IndexExpr); ok {
								if _, isK := core.ConstVal(info, ix.Index); isK {
									mentionsByte = true
								}
							}
							return true
						})
					}
					scan(is.Cond)
					if is.Init != nil {
						scan(is.Init)
					}
					if mentionsByte {
						out = append(out, "opt{")
						walk(list[si+1:])
						out = append(out, "}")
						return
					}
				}
			}
			switch x := s.(type) {
			case *ast.ForStmt:
				out = append(out, "loop{")
				walk(x.Body.List)
				out = append(out, "}")
				continue
			case *ast.RangeStmt:
				out = append(out, "loop{")
				walk(x.Body.List)
				out = append(out, "}")
				continue
			case *ast.IfStmt:
				// optional sections: only if the branch itself produces tokens
				before := len(out)
				out = append(out, "opt{")
				if x.Init != nil {
					walk([]ast.Stmt{x.Init})
				}
				n1 := len(out)
				walk(x.Body.List)
				if len(out) == n1 {
					// no tokens inside the body: tokens of the init belong to the enclosing sequence
					inner := append([]string{}, out[before+1:]...)
					out = append(out[:before], inner...)
				} else {
					out = append(out, "}")
				}
				if eb, ok := x.Else.(*ast.BlockStmt); ok {
					b2 := len(out)
					out = append(out, "else{")
					walk(eb.List)
					if len(out) == b2+1 {
						out = out[:b2]
					} else {
						out = append(out, "}")
					}
				} else if ei, ok := x.Else.(*ast.IfStmt); ok {
					walk([]ast.Stmt{ei})
				}
				continue
			}
			ast.Inspect(s, func(n ast.Node) bool {
				call, ok := n.(*ast.CallExpr)
				if !ok {
					return true
				}
				if _, isLit := call.Fun.(*ast.FuncLit); isLit {
					return false
				}
				pkg, recv, nm := extCallee(info, call)
				if writer {
					if pkg == "bytes" && recv == "Buffer" {
						switch nm {
						case "WriteByte":
							out = append(out, "u8")
						case "WriteString":
							out = append(out, "str")
						case "Write":
							if w := widthOfLeBytes(call.Args[0]); w != "" {
								out = append(out, w)
							} else if tv, ok := info.Types[call.Args[0]]; ok {
								if id, isID := ast.Unparen(call.Args[0]).(*ast.Ident); isID && strings.Contains(strings.ToLower(id.Name), "magic") {
									out = append(out, "magic")
								} else if _, isSl := tv.Type.Underlying().(*types.Slice); isSl {
									out = append(out, "blob")
								}
							}
						}
					}
					return true
				}
				// reader side
				f := core.Callee(info, call)
				if f != nil && f.Pkg() == p.Types && layoutDepth < 3 {
					// a helper of the package that is given the reader: its reads are spliced in
					takesReader := false
					for _, a := range call.Args {
						if tv, ok := info.Types[a]; ok && tv.Type != nil && strings.HasPrefix(tv.Type.String(), "io.Read") {
							takesReader = true
						}
					}
					if hd := declOf(p, f); takesReader && hd != nil {
						layoutDepth++
						out = append(out, layoutTokens(c, p, hd.Body, false)...)
						layoutDepth--
						return false
					}
				}
				isRead := false
				if sel, ok := call.Fun.(*ast.SelectorExpr); ok && sel.Sel.Name == "Read" && len(call.Args) == 1 {
					if tv, ok := info.Types[sel.X]; ok && tv.Type != nil && strings.HasPrefix(tv.Type.String(), "io.Read") {
						isRead = true
					}
				}
				if (pkg == "io" && nm == "ReadFull" && len(call.Args) == 2) || isRead {
					if se, ok := ast.Unparen(resolveLocal(call.Args[len(call.Args)-1])).(*ast.SliceExpr); ok && se.High != nil {
						if v, ok := core.ConstVal(info, se.High); ok {
							switch v {
							case 1:
								out = append(out, "u8")
							case 4:
								out = append(out, "u32")
							case 8:
								out = append(out, "u64")
							default:
								out = append(out, fmt.Sprintf("bytes%d", v))
							}
							return false
						}
					}
					if isRead {
						if id, ok := ast.Unparen(call.Args[0]).(*ast.Ident); ok && strings.Contains(strings.ToLower(id.Name), "header") {
							out = append(out, "magic", "u8", "str", "u32")
							return false
						}
					}
					out = append(out, "blob")
					return false
				}
				if sel, ok := call.Fun.(*ast.SelectorExpr); ok && sel.Sel.Name == "Read" && len(call.Args) == 1 {
					// header read: the buffer's size expression names its parts
					if id, ok := ast.Unparen(call.Args[0]).(*ast.Ident); ok && strings.Contains(strings.ToLower(id.Name), "header") {
						out = append(out, "magic", "u8", "str", "u32")
						return false
					}
					out = append(out, "raw-read")
				}
				return true
			})
		}
	}
	walk(body.List)
	return out
}

func checkCacheLayout(c *core.Ctx) {
	ep := c.Pkg("internal/engine/wazevo")
	if ep == nil {
		return
	}
	var ser, de *ast.FuncDecl
	core.AllFuncDecls(ep, func(fd *ast.FuncDecl) {
		f, _ := ep.TypesInfo.Defs[fd.Name].(*types.Func)
		if f == nil || fd.Recv != nil {
			return
		}
		sig := f.Type().(*types.Signature)
		if sig.Results().Len() == 1 && sig.Results().At(0).Type().String() == "io.Reader" && sig.Params().Len() == 2 {
			ser = fd
		}
		if sig.Results().Len() == 3 && sig.Params().Len() == 2 && strings.HasPrefix(sig.Params().At(1).Type().String(), "io.Read") {
			de = fd
		}
	})
	if ser == nil || de == nil {
		c.Undecided("R13.3", "layout", 0, fmt.Sprintf("serialiser found=%v deserialiser found=%v", ser != nil, de != nil))
		return
	}
	w := layoutTokens(c, ep, ser.Body, true)
	r := layoutTokens(c, ep, de.Body, false)
	norm := func(ts []string) string {
		// drop empty optional wrappers and the else{u8} marker that only says "absent"
		s := strings.Join(ts, " ")
		s = strings.ReplaceAll(s, "opt{ }", "")
		return strings.Join(strings.Fields(s), " ")
	}
	ws, rs := norm(w), norm(r)
	// the writer emits the presence byte inside both branches; the reader reads it once before the optional part
	ws = strings.ReplaceAll(ws, "opt{ u8 u64 loop{ u64 u64 } } else{ u8 }", "u8 opt{ u64 loop{ u64 u64 } }")
	// the reader only reads the executable when its length is not zero: a blob of length zero is nothing, so a conditional
	// blob equals an unconditional one. (The checksum behind it is NOT optional: the writer always emits it; an earlier
	// version of this rule also accepted `opt{ blob u32 }`, which hid a genuine defect – truncated entries of modules
	// without code were accepted.)
	rs = strings.ReplaceAll(rs, "opt{ blob }", "blob")
	c.Check(ws == rs, "R13.3", "layout: serialiser = deserialiser field sequence", ser.Pos(), "both sides: "+ws, "the serialiser writes `"+ws+"` but the deserialiser reads `"+rs+"`: entries written by this version are misread (or truncated entries accepted)")
}

// ---- R13.4
var orderInsensitiveCompileRanges = map[string]string{}

func checkCompileDeterminism(c *core.Ctx) {
	pkgs := []string{"internal/engine/wazevo", "internal/engine/wazevo/frontend", "internal/engine/wazevo/ssa", "internal/engine/wazevo/backend", "internal/engine/wazevo/backend/regalloc",
		"internal/engine/wazevo/backend/isa/amd64", "internal/engine/wazevo/backend/isa/arm64", "internal/engine/wazevo/wazevoapi"}
	var sites []string
	n := 0
	// the compile path: what Engine.CompileModule reaches over the VTA call graph, within these packages
	all := moduleFns(c, pkgs...)
	inScope := map[*ssa.Function]bool{}
	for _, fn := range all {
		inScope[fn] = true
	}
	cg := c.VTA()
	onPath := map[*ssa.Function]bool{}
	var work []*ssa.Function
	for _, fn := range all {
		if fn.Name() == "CompileModule" && fn.Parent() == nil {
			onPath[fn] = true
			work = append(work, fn)
		}
	}
	if len(work) == 0 {
		c.Undecided("R13.4", "Engine.CompileModule", 0, "compile entry point not found")
	}
	for len(work) > 0 {
		fn := work[0]
		work = work[1:]
		var next []*ssa.Function
		if nd := cg.Nodes[fn]; nd != nil {
			for _, e := range nd.Out {
				next = append(next, e.Callee.Func)
			}
		}
		next = append(next, fn.AnonFuncs...)
		for _, g := range next {
			if inScope[g] && !onPath[g] {
				onPath[g] = true
				work = append(work, g)
			}
		}
	}
	c.Count("compile_path_functions", len(onPath))
	for _, fn := range all {
		for _, b := range fn.Blocks {
			for _, in := range b.Instrs {
				r, ok := in.(*ssa.Range)
				if !ok {
					continue
				}
				if _, isMap := r.X.Type().Underlying().(*types.Map); !isMap {
					continue
				}
				name := core.SSAFuncName(fn)
				if !onPath[fn] {
					if _, listed := c13MapRanges[name]; !listed {
						c.Notef("map range in %s is not reachable from Engine.CompileModule: not on the compile path", name)
						continue
					}
				}
				n++
				if why, ok := c13MapRanges[name]; ok {
					if strings.Contains(why, "sort.Slice verified") && !callsSort(fn) {
						sites = append(sites, name+" at "+c.Pos(r.Pos())+" (the sort that made this iteration order-insensitive is gone)")
						continue
					}
					c.Notef("map range in %s accepted: %s", name, why)
					continue
				}
				sites = append(sites, name+" at "+c.Pos(r.Pos()))
			}
		}
	}
	// time / rand on the compile path
	for _, fn := range moduleFns(c, pkgs[1:]...) {
		for _, b := range fn.Blocks {
			for _, in := range b.Instrs {
				if ci, ok := in.(ssa.CallInstruction); ok {
					if f := ci.Common().StaticCallee(); f != nil && f.Pkg != nil {
						if f.Name() == "init" || strings.HasPrefix(core.SSAFuncName(fn), "internal/engine/wazevo/wazevoapi.") && debugVerifierOff(c) {
							continue // package initialisers; the deterministic-compilation verifier is compiled out (constant false)
						}
						switch f.Pkg.Pkg.Path() {
						case "math/rand", "math/rand/v2", "crypto/rand":
							sites = append(sites, core.SSAFuncName(fn)+" calls "+f.String()+" at "+c.Pos(in.Pos()))
						case "time":
							if f.Name() == "Now" {
								sites = append(sites, core.SSAFuncName(fn)+" calls time.Now at "+c.Pos(in.Pos()))
							}
						}
					}
				}
			}
		}
	}
	sort.Strings(sites)
	c.Count("compile_path_map_ranges", n)
	c.Check(len(sites) == 0, "R13.4", "compile path: no unclassified map iteration / clock / randomness", 0, fmt.Sprintf("%d map ranges, all classified order-insensitive", n),
		"sources of non-determinism on the compile path (the same module could produce different cache entries): "+strings.Join(sites, "; "))
}

// c13MapRanges: map iterations in the compile-path packages, each with the reason why the order cannot reach the emitted bytes.
var c13MapRanges = map[string]string{
	"internal/engine/wazevo/ssa.(builder).Init":                "resets a flag on every element: the result does not depend on the order",
	"internal/engine/wazevo/ssa.(builder).Signatures":          "collects the values and sorts them by ID before returning (sort.Slice verified in the same function)",
	"internal/engine/wazevo/ssa.(builder).usedSignatures":      "collects the values and sorts them by ID before returning (sort.Slice verified in the same function)",
	"internal/engine/wazevo/backend/isa/amd64.(machine).Reset": "collects the keys only to delete every one of them: clearing a map is order-insensitive",
	"internal/engine/wazevo/backend/isa/arm64.(machine).Reset": "collects the keys only to delete every one of them: clearing a map is order-insensitive",
	"internal/engine/wazevo.sharedFunctionsFinalizer":          "finalizer unmapping every trampoline: not on the compile path, order-insensitive",
}

// ---- R13.5
func checkSerializedOwnership(c *core.Ctx) {
	for _, fn := range moduleFns(c, "internal/engine/wazevo") {
		if fn.Parent() != nil || fn.Signature.Recv() != nil || fn.Signature.Results().Len() != 1 || fn.Signature.Results().At(0).Type().String() != "io.Reader" {
			continue
		}
		// buffers whose Bytes() reach the returned reader
		ok := true
		why := ""
		n := 0
		for _, b := range fn.Blocks {
			for _, in := range b.Instrs {
				call, isCall := in.(*ssa.Call)
				if !isCall {
					continue
				}
				f := call.Common().StaticCallee()
				if f == nil || f.Name() != "Bytes" || f.Signature.Recv() == nil || !core.IsNamed(f.Signature.Recv().Type(), "bytes", "Buffer") {
					continue
				}
				n++
				buf := call.Common().Args[0]
				fresh := false
				switch x := buf.(type) {
				case *ssa.Call:
					if cf := x.Common().StaticCallee(); cf != nil && cf.Pkg != nil && cf.Pkg.Pkg.Path() == "bytes" && (cf.Name() == "NewBuffer" || cf.Name() == "NewBufferString") {
						// NewBuffer(nil) or over a fresh slice
						if k, isK := x.Common().Args[0].(*ssa.Const); isK && k.IsNil() {
							fresh = true
						}
						if _, isMS := x.Common().Args[0].(*ssa.MakeSlice); isMS {
							fresh = true
						}
					}
				case *ssa.Alloc:
					fresh = true
				}
				if !fresh {
					ok = false
					why = fmt.Sprintf("the buffer whose bytes back the returned reader (%T at %s) is not allocated in this call (pool, package variable or field): the bytes can be overwritten by another compilation before the cache has written them", buf, c.Pos(call.Pos()))
				}
				// and it must not be handed back to a pool: no call passing buf to (*sync.Pool).Put
				for _, bb := range fn.Blocks {
					for _, ii := range bb.Instrs {
						if ci, isCI := ii.(ssa.CallInstruction); isCI {
							if pf := ci.Common().StaticCallee(); pf != nil && pf.Name() == "Put" && pf.Pkg != nil && pf.Pkg.Pkg.Path() == "sync" {
								ok = false
								why = "the serialisation buffer is returned to a sync.Pool while the returned reader still reads from it"
							}
						}
					}
				}
			}
		}
		if n == 0 {
			continue
		}
		c.Check(ok, "R13.5", "serialised entry owns its bytes in "+core.SSAFuncName(fn), fn.Pos(), "the reader is backed by a buffer allocated in this call", why)
	}
}

func isString(t types.Type) bool {
	b, ok := t.Underlying().(*types.Basic)
	return ok && b.Info()&types.IsString != 0
}

func callsSort(fn *ssa.Function) bool {
	for _, b := range fn.Blocks {
		for _, in := range b.Instrs {
			if ci, ok := in.(ssa.CallInstruction); ok {
				if f := ci.Common().StaticCallee(); f != nil && f.Pkg != nil && (f.Pkg.Pkg.Path() == "sort" || f.Pkg.Pkg.Path() == "slices") {
					return true
				}
			}
		}
	}
	return false
}

// debugVerifierOff: the constant that enables the randomising compilation verifier is false.
func debugVerifierOff(c *core.Ctx) bool {
	p := c.Pkg("internal/engine/wazevo/wazevoapi")
	if p == nil {
		return false
	}
	k, ok := p.Types.Scope().Lookup("DeterministicCompilationVerifierEnabled").(*types.Const)
	return ok && k.Val().String() == "false"
}
