package props

import (
	"fmt"
	"go/ast"
	"go/token"
	"go/types"
	"golang.org/x/tools/go/packages"
	"sort"
	"strings"

	"golang.org/x/tools/go/ssa"

	"verif/checker/core"
)

// C06 Traps, exits and host panics are contained and leave the runtime usable (structural clauses).

func init() {
	core.Register(&core.Property{
		ID:    "C06",
		Level: "other",
		Explanation: "Decided (necessary conditions, for every failing call at any nesting depth): (R06.1) every wazevoapi.ExitCode constant has an arm in the Go-side dispatch loop, so no exit falls into the BUG default; arms that do not resume native code panic with a wasmruntime error value; " +
			"(R06.2) every arm that re-enters native code resets the exit code to OK first; the call entry's deferred function calls recover() unconditionally and resets the exit code on every path that leaves with a non-nil error (a function object stays usable after a trap, a stack overflow, a host panic or an exit); " +
			"(R06.3) the interpreter's recover path truncates both the value stack and the frame stack unconditionally; (R06.4) every panic in the two engines' run-time files carries a documented kind (wasmruntime error, the error of FailIfClosed/ExitError, a snapshot, or an internal BUG/TODO string); " +
			"(R06.8) a panic that a call's recover path re-throws (a snapshot restore crossing a nested call) is preceded by the clean-up every other failure path does – exit-code reset in the compiler, truncation of both stacks in the interpreter (genuine defects found and fixed on both engines); (R06.5) both engines compare the stack size with a ceiling before growing and report wasmruntime.ErrRuntimeStackOverflow; (R06.6) the closed word keeps the exit code in its high half on every transition (new = flag | code<<32 from 0; flag bits only otherwise). " +
			"(R06.7) the context watcher a call starts is stopped by a deferred call, so that a failed call does not leave a watcher that later closes the healthy instance. NOT decided: correctness of native frame unwinding and stack-pointer adjustment, behaviour of later calls in general.",
		Rules: []core.Rule{
			{ID: "R06.1", Template: "T-EXHAUST", Text: "every ExitCode constant has an arm; non-resuming arms panic with a wasmruntime error", Min: 20},
			{ID: "R06.2", Template: "T-MUSTPASS", Text: "reset-before-resume; deferred recover is unconditional and resets the exit code on every failing path", Min: 8},
			{ID: "R06.3", Template: "T-SIBLING", Text: "interpreter recover path truncates value stack and frame stack", Min: 1},
			{ID: "R06.4", Template: "T-WHOCALLS", Text: "panic values in the engines run-time files have a documented kind; both engines raise the same set of wasmruntime errors", Min: 10},
			{ID: "R06.5", Template: "T-CONSULT", Text: "stack ceilings are compared before growth", Min: 3},
			{ID: "R06.10", Template: "T-TYPESTATE", Text: "no explicit panic (trap) while a mutex locked in the same function, without deferred unlock, is held", Min: 1},
			{ID: "R06.9", Template: "T-SIBLING", Text: "nested calls in the interpreter pass the running function's own instance as the calling module, so an exit closes the instance that exited (same analysis as C04 R04.13)", Min: 1},
			{ID: "R06.8", Template: "T-MUSTPASS", Text: "a panic re-thrown by a call's recover path (snapshot restore crossing a nested call) is preceded by the same clean-up as every other failure (genuine defects found and fixed on both engines)", Min: 2},
			{ID: "R06.6", Template: "T-REPR", Text: "closed-word transitions preserve the exit code in the high half", Min: 2},
			{ID: "R06.7", Template: "T-MUSTPASS", Text: "the context watcher of a call is stopped by a deferred call (also on panic exits)", Min: 2},
		},
		Run: runC06,
		Controls: []core.Control{
			{Name: "atomic-trap-with-memory-mutex-held", File: "internal/engine/interpreter/interpreter.go", Old: "\t\t\t\t\tmemoryInst.Mux.Unlock()\n\t\t\t\t\tpanic(wasmruntime.ErrRuntimeOutOfBoundsMemoryAccess)", New: "\t\t\t\t\tpanic(wasmruntime.ErrRuntimeOutOfBoundsMemoryAccess)", Rule: "R06.10", Substr: "Mux"},
			{Name: "exitcode-without-arm", File: "internal/engine/wazevo/call_engine.go", Old: "\t\tcase wazevoapi.ExitCodeUnalignedAtomic:\n\t\t\tpanic(wasmruntime.ErrRuntimeUnalignedAtomic)\n", New: "", Rule: "R06.1", Substr: "ExitCodeUnalignedAtomic"},
			{Name: "resume-without-reset", File: "internal/engine/wazevo/call_engine.go", Old: "\t\t\tc.execCtx.exitCode = wazevoapi.ExitCodeOK\n\t\t\tafterGoFunctionCallEntrypoint(c.execCtx.goCallReturnAddress, c.execCtxPtr, uintptr(unsafe.Pointer(c.execCtx.stackPointerBeforeGoCall)), c.execCtx.framePointerBeforeGoCall)\n\t\tcase wazevoapi.ExitCodeTableGrow:", New: "\t\t\tafterGoFunctionCallEntrypoint(c.execCtx.goCallReturnAddress, c.execCtxPtr, uintptr(unsafe.Pointer(c.execCtx.stackPointerBeforeGoCall)), c.execCtx.framePointerBeforeGoCall)\n\t\tcase wazevoapi.ExitCodeTableGrow:", Rule: "R06.2", Substr: "ExitCodeGrowMemory"},
			{Name: "reset-only-after-panic", File: "internal/engine/wazevo/call_engine.go", Old: "\t\tif err != nil {\n\t\t\t// Ensures that we can reuse this callEngine even after an error.\n\t\t\tc.execCtx.exitCode = wazevoapi.ExitCodeOK\n\t\t}\n", New: "\t\tif err != nil && r != nil {\n\t\t\t// Ensures that we can reuse this callEngine even after an error.\n\t\t\tc.execCtx.exitCode = wazevoapi.ExitCodeOK\n\t\t}\n", Rule: "R06.2", Substr: "deferred"},
			{Name: "interp-frames-not-truncated", File: "internal/engine/interpreter/interpreter.go", Old: "\t// Allows the reuse of CallEngine.\n\tce.stack, ce.frames = ce.stack[:0], ce.frames[:0]\n", New: "\tce.stack = ce.stack[:0]\n", Rule: "R06.3", Substr: "recover"},
			{Name: "interp-rethrow-without-reset", File: "internal/engine/interpreter/interpreter.go", Old: "\t\tce.stack, ce.frames = ce.stack[:0], ce.frames[:0]\n\t\tpanic(s)\n", New: "\t\tpanic(s)\n", Rule: "R06.8", Substr: "interpreter"},
			{Name: "compiler-rethrow-without-reset", File: "internal/engine/wazevo/call_engine.go", Old: "\t\t\tc.execCtx.exitCode = wazevoapi.ExitCodeOK\n\t\t\tpanic(s)\n", New: "\t\t\tpanic(s)\n", Rule: "R06.8", Substr: "compiler"},
			{Name: "panic-with-bare-int", File: "internal/engine/interpreter/interpreter.go", Old: "\tif callStackCeiling <= len(ce.frames) {\n\t\tpanic(wasmruntime.ErrRuntimeStackOverflow)", New: "\tif callStackCeiling <= len(ce.frames) {\n\t\tpanic(len(ce.frames))", Rule: "R06.4", Substr: "pushFrame"},
			{Name: "interp-no-ceiling", File: "internal/engine/interpreter/interpreter.go", Old: "\tif callStackCeiling <= len(ce.frames) {\n\t\tpanic(wasmruntime.ErrRuntimeStackOverflow)\n\t}\n\tce.frames = append(ce.frames, frame)", New: "\tce.frames = append(ce.frames, frame)", Rule: "R06.5", Substr: "interpreter"},
			{Name: "interp-watcher-stopped-only-on-normal-return", File: "internal/engine/interpreter/interpreter.go", Old: "\t\tdone := m.CloseModuleOnCanceledOrTimeout(ctx)\n\t\tdefer done()\n\t}\n\n\tce.callFunction(ctx, m, ce.f)\n", New: "\t\tdone := m.CloseModuleOnCanceledOrTimeout(ctx)\n\t\tce.callFunction(ctx, m, ce.f)\n\t\tdone()\n\t} else {\n\t\tce.callFunction(ctx, m, ce.f)\n\t}\n", Rule: "R06.7", Substr: "interpreter"},
			{Name: "closed-word-loses-exit-code", File: "internal/wasm/module_instance.go", Old: "m.Closed.CompareAndSwap(closed, (closed&^exitCodeFlagMask)|exitCodeFlagResourceClosed)", New: "m.Closed.CompareAndSwap(closed, exitCodeFlagResourceClosed|uint64(uint32(closed>>32)))", Rule: "R06.6", Substr: "FailIfClosed"},
		},
		Configs: []core.BuildCfg{{GOOS: "linux", GOARCH: "arm64"}},
	})
}

func runC06(c *core.Ctx) {
	checkNoPanicWithLockHeld(c)
	checkInterpCallerInstance(c, "R06.9")
	checkWatcherStopped(c)
	c.SSA()
	ep := c.Pkg("internal/engine/wazevo")
	ip := c.Pkg("internal/engine/interpreter")
	api := c.Pkg("internal/engine/wazevo/wazevoapi")
	rt := c.Pkg("internal/wasmruntime")
	if ip == nil || rt == nil {
		c.Undecided("R06.1", "packages", 0, "interpreter / wasmruntime package not loaded")
		return
	}
	isRuntimeErr := func(info *types.Info, e ast.Expr) bool {
		if se, ok := ast.Unparen(e).(*ast.SelectorExpr); ok {
			if v, ok := info.Uses[se.Sel].(*types.Var); ok && v.Pkg() == rt.Types {
				return true
			}
		}
		return false
	}
	if ep != nil && api != nil {
		info := ep.TypesInfo
		// ---- R06.1
		ecT := api.Types.Scope().Lookup("ExitCode").Type()
		var consts []*types.Const
		for _, n := range api.Types.Scope().Names() {
			if k, ok := api.Types.Scope().Lookup(n).(*types.Const); ok && types.Identical(k.Type(), ecT) && strings.HasPrefix(n, "ExitCode") && n != "ExitCodeMask" {
				consts = append(consts, k)
			}
		}
		var loopFn *ast.FuncDecl
		var sw *ast.SwitchStmt
		for _, r := range core.FindCaseClauses(ep, api.Types.Scope().Lookup("ExitCodeOK")) {
			if sw == nil || len(r.Switch.Body.List) > len(sw.Body.List) {
				loopFn, sw = r.Fn, r.Switch
			}
		}
		if sw == nil {
			c.Undecided("R06.1", "exit-code loop", 0, "Go-side dispatch over ExitCode not found")
		} else {
			arms := map[types.Object]*ast.CaseClause{}
			var deflt *ast.CaseClause
			for _, cs := range sw.Body.List {
				cc := cs.(*ast.CaseClause)
				if cc.List == nil {
					deflt = cc
				}
				for _, l := range cc.List {
					if se, ok := ast.Unparen(l).(*ast.SelectorExpr); ok {
						arms[info.Uses[se.Sel]] = cc
					}
				}
			}
			for _, k := range consts {
				cc := arms[k]
				c.Check(cc != nil, "R06.1", "arm for "+k.Name(), sw.Pos(), "handled by the Go-side loop", "exit code "+k.Name()+" has no arm in the Go-side dispatch: native code leaving with it hits the BUG default and the caller gets an internal panic instead of a documented error")
				if cc == nil {
					continue
				}
				// resumes or returns or panics with a wasmruntime error
				resumes, returns := false, false
				var panicOK, panicBad []string
				ast.Inspect(cc, func(n ast.Node) bool {
					switch x := n.(type) {
					case *ast.CallExpr:
						if f := core.Callee(info, x); f != nil && strings.HasPrefix(f.Name(), "afterGoFunctionCallEntrypoint") {
							resumes = true
						}
						if core.IsBuiltin(info, x, "panic") && len(x.Args) == 1 {
							if isRuntimeErr(info, x.Args[0]) || isErrIdent(info, x.Args[0]) {
								panicOK = append(panicOK, core.ExprStr(x.Args[0]))
							} else {
								panicBad = append(panicBad, core.ExprStr(x.Args[0]))
							}
						}
					case *ast.ReturnStmt:
						returns = true
					}
					return true
				})
				if !resumes && !returns {
					c.Check(len(panicOK) > 0 && len(panicBad) == 0, "R06.1", "arm "+k.Name()+" ends with a documented error", cc.Pos(), "panics with "+strings.Join(panicOK, ", "),
						"the arm neither resumes native code nor returns nor panics with a wasmruntime error (panics: "+strings.Join(panicBad, ", ")+"): the caller does not get an error of the documented kind")
				}
				// ---- R06.2 (a) reset before resume
				if resumes {
					ok := true
					var bad []string
					for _, lp := range resumeCalls(info, cc) {
						// a preceding sibling (in some enclosing list) assigns exitCode = ExitCodeOK
						found := false
						for _, l := range core.EnclosingLists(cc, lp) {
							for _, prev := range l.List[:l.Index] {
								if assignsExitOK(info, prev, api.Types.Scope().Lookup("ExitCodeOK")) {
									found = true
								}
							}
						}
						if !found {
							ok = false
							bad = append(bad, c.Pos(lp.Pos()))
						}
					}
					c.Check(ok, "R06.2", "reset before resume in arm "+k.Name(), cc.Pos(), "exitCode = ExitCodeOK precedes every re-entry into native code",
						"native code is resumed at "+strings.Join(bad, ", ")+" without resetting the exit code: the next normal return is mistaken for this exit and handled again")
				}
			}
			if deflt == nil {
				c.Violate("R06.1", "default arm", sw.Pos(), "the exit-code switch has no default: an unknown exit code loops forever")
			}
			// ---- R06.2 (b) deferred function of the call entry
			var deferLit *ast.FuncLit
			for _, s := range loopFn.Body.List {
				if ds, ok := s.(*ast.DeferStmt); ok {
					if fl, ok := ds.Call.Fun.(*ast.FuncLit); ok {
						recovers := false
						ast.Inspect(fl.Body, func(n ast.Node) bool {
							if call, ok := n.(*ast.CallExpr); ok && core.IsBuiltin(info, call, "recover") {
								recovers = true
							}
							return true
						})
						if recovers {
							deferLit = fl
						}
					}
				}
			}
			if deferLit == nil {
				c.Violate("R06.2", "deferred recover in "+core.FuncName(ep, loopFn), loopFn.Pos(), "the call entry has no deferred function that recovers: a trap or host panic crashes the caller")
			} else {
				// recover() at top level of the deferred function (unconditional)
				top := false
				for _, s := range deferLit.Body.List {
					if as, ok := s.(*ast.AssignStmt); ok && len(as.Rhs) == 1 {
						if call, ok := as.Rhs[0].(*ast.CallExpr); ok && core.IsBuiltin(info, call, "recover") {
							top = true
						}
					}
				}
				c.Check(top, "R06.2", "deferred recover is unconditional in "+core.FuncName(ep, loopFn), deferLit.Pos(), "recover() is a top-level statement of the deferred function", "recover() is only called conditionally: some panics propagate to the embedder")
				// reset on every failing path: a top-level statement `if err != nil { exitCode = OK }` or an unconditional reset
				okK := api.Types.Scope().Lookup("ExitCodeOK")
				reset := false
				for _, s := range deferLit.Body.List {
					if assignsExitOKDirect(info, s, okK) {
						reset = true
					}
					if is, ok := s.(*ast.IfStmt); ok && is.Init == nil && is.Else == nil {
						if be, ok := is.Cond.(*ast.BinaryExpr); ok && be.Op == token.NEQ && isErrIdent(info, be.X) {
							if id, ok := be.Y.(*ast.Ident); ok && id.Name == "nil" {
								for _, b := range is.Body.List {
									if assignsExitOKDirect(info, b, okK) {
										reset = true
									}
								}
							}
						}
					}
				}
				// (c) a re-thrown panic leaves the deferred function before that reset: it needs its own
				for _, l := range blocksOf(deferLit.Body) {
					for i, s := range l.List {
						es, ok := s.(*ast.ExprStmt)
						if !ok {
							continue
						}
						call, ok := es.X.(*ast.CallExpr)
						if !ok || !core.IsBuiltin(info, call, "panic") {
							continue
						}
						pre := false
						for _, prev := range l.List[:i] {
							if assignsExitOKDirect(info, prev, okK) {
								pre = true
							}
						}
						c.Check(pre, "R06.8", "compiler: the exit code is reset before the deferred function re-throws `"+core.ExprStr(call)+"`", call.Pos(), "exitCode = ExitCodeOK precedes the panic in the same block",
							"the deferred function re-throws (a snapshot restore crossing this nested call) without resetting the exit code: this call is over, and the next ordinary call on the same function object handles the stale Go-call exit again (invokes the host function once more)")
					}
				}
				c.Check(reset, "R06.2", "deferred reset of the exit code in "+core.FuncName(ep, loopFn), deferLit.Pos(), "the exit code is reset whenever the call leaves with an error (top-level `if err != nil`)",
					"the exit code is not reset on every path that leaves with an error (e.g. a stack overflow returned without a panic): the same function object reports that stale exit on its next call")
			}
		}
	}

	// ---- R06.3 interpreter recover path
	{
		info := ip.TypesInfo
		found := false
		core.AllFuncDecls(ip, func(fd *ast.FuncDecl) {
			// the recover helper: called from a deferred function literal with the recovered value
			if core.RecvName(fd) != "callEngine" {
				return
			}
			calledWithRecovered := false
			core.AllFuncDecls(ip, func(g *ast.FuncDecl) {
				ast.Inspect(g.Body, func(n ast.Node) bool {
					if is, ok := n.(*ast.IfStmt); ok && is.Init != nil {
						if as, ok := is.Init.(*ast.AssignStmt); ok && len(as.Rhs) == 1 {
							if call, ok := as.Rhs[0].(*ast.CallExpr); ok && core.IsBuiltin(info, call, "recover") {
								if cc := core.CallsAny(info, is.Body, map[*types.Func]bool{info.Defs[fd.Name].(*types.Func): true}); cc != nil {
									calledWithRecovered = true
								}
							}
						}
					}
					return true
				})
			})
			if !calledWithRecovered {
				return
			}
			found = true
			trunc := map[string]bool{}
			for _, s := range fd.Body.List {
				as, ok := s.(*ast.AssignStmt)
				if !ok {
					continue
				}
				for i, l := range as.Lhs {
					f := core.FieldOf(info, l)
					if f == nil || i >= len(as.Rhs) {
						continue
					}
					if se, ok := as.Rhs[i].(*ast.SliceExpr); ok && se.Low == nil && se.High != nil {
						if v, ok := core.ConstVal(info, se.High); ok && v == 0 && core.FieldOf(info, se.X) == f {
							trunc[f.Name()] = true
						}
					}
				}
			}
			truncates := func(st ast.Stmt) map[string]bool {
				t := map[string]bool{}
				as, ok := st.(*ast.AssignStmt)
				if !ok {
					return t
				}
				for i, l := range as.Lhs {
					f := core.FieldOf(info, l)
					if f == nil || i >= len(as.Rhs) {
						continue
					}
					if se, ok := as.Rhs[i].(*ast.SliceExpr); ok && se.Low == nil && se.High != nil {
						if v, ok := core.ConstVal(info, se.High); ok && v == 0 && core.FieldOf(info, se.X) == f {
							t[f.Name()] = true
						}
					}
				}
				return t
			}
			for _, l := range blocksOf(fd.Body) {
				for i, st := range l.List {
					es, ok := st.(*ast.ExprStmt)
					if !ok {
						continue
					}
					call, ok := es.X.(*ast.CallExpr)
					if !ok || !core.IsBuiltin(info, call, "panic") {
						continue
					}
					t := map[string]bool{}
					for _, prev := range l.List[:i] {
						for k := range truncates(prev) {
							t[k] = true
						}
					}
					c.Check(t["stack"] && t["frames"], "R06.8", "interpreter: both stacks are truncated before the recover path re-throws `"+core.ExprStr(call)+"`", call.Pos(), "ce.stack and ce.frames are reset before the panic in the same block",
						"the recover path re-throws (a snapshot restore crossing this nested call) without resetting the call engine: the frames and operands of the aborted call stay for ever and the function object eventually fails with a spurious stack overflow")
				}
			}
			var miss []string
			for _, f := range []string{"stack", "frames"} {
				if !trunc[f] {
					miss = append(miss, f)
				}
			}
			c.Check(len(miss) == 0, "R06.3", "recover path truncates both stacks in "+core.FuncName(ip, fd), fd.Pos(), "ce.stack and ce.frames are reset to length 0 unconditionally",
				"the recover path does not reset "+strings.Join(miss, " and ")+": frames left by a deep failure count against the frame ceiling of later calls on the same function object (spurious stack overflow)")
		})
		if !found {
			c.Undecided("R06.3", "interpreter recover helper", 0, "no callEngine method called from `if v := recover(); v != nil` found")
		}
	}

	// ---- R06.4 panic kinds
	for _, e := range []struct {
		name string
		p    string
		file string
	}{{"interpreter", "internal/engine/interpreter", "interpreter.go"}, {"wazevo", "internal/engine/wazevo", "call_engine.go"}} {
		p := c.Pkg(e.p)
		if p == nil {
			continue
		}
		info := p.TypesInfo
		n := 0
		core.AllFuncDecls(p, func(fd *ast.FuncDecl) {
			if !strings.HasSuffix(c.Fset.Position(fd.Pos()).Filename, "/"+e.file) {
				return
			}
			var bad []string
			sites := 0
			ast.Inspect(fd.Body, func(x ast.Node) bool {
				call, ok := x.(*ast.CallExpr)
				if !ok || !core.IsBuiltin(info, call, "panic") || len(call.Args) != 1 {
					return true
				}
				sites++
				a := ast.Unparen(call.Args[0])
				ok2 := false
				switch {
				case isRuntimeErr(info, a):
					ok2 = true
				case isErrIdent(info, a): // err from FailIfClosed / sys.NewExitError / recovered value being re-thrown
					ok2 = true
				default:
					// internal errors (BUG messages, formatted errors), exit errors, re-thrown recovered values and
					// snapshots: any string, error or interface value; anything else (a bare number, a struct) has no
					// documented mapping in the error builder.
					tv := info.Types[a]
					if tv.Type != nil {
						switch u := tv.Type.Underlying().(type) {
						case *types.Basic:
							ok2 = u.Info()&types.IsString != 0
						case *types.Interface:
							ok2 = true
						default:
							ok2 = types.Implements(tv.Type, errorIface) || strings.Contains(tv.Type.String(), "snapshot")
						}
					}
				}
				if !ok2 {
					bad = append(bad, fmt.Sprintf("panic(%s) at %s", core.ExprStr(a), c.Pos(call.Pos())))
				}
				return true
			})
			if sites > 0 {
				n += sites
				c.Check(len(bad) == 0, "R06.4", e.name+" panic kinds in "+core.FuncName(p, fd), fd.Pos(), fmt.Sprintf("%d panic site(s), all of a documented kind", sites),
					"panic with a value that is neither a wasmruntime error, an exit error, a snapshot nor an internal BUG message: "+strings.Join(bad, "; ")+" – the caller cannot map it to a documented error kind")
			}
		})
		c.Count(e.name+"_panic_sites", n)
	}

	// sibling agreement: both engines raise the same set of wasmruntime errors
	{
		sets := map[string]map[string]bool{}
		for _, rel := range []string{"internal/engine/interpreter", "internal/engine/wazevo"} {
			p := c.Pkg(rel)
			if p == nil {
				continue
			}
			set := map[string]bool{}
			core.AllFuncDecls(p, func(fd *ast.FuncDecl) {
				ast.Inspect(fd.Body, func(x ast.Node) bool {
					if se, ok := x.(*ast.SelectorExpr); ok && isRuntimeErr(p.TypesInfo, se) {
						set[se.Sel.Name] = true
					}
					return true
				})
			})
			sets[rel] = set
		}
		if len(sets) == 2 {
			a, b := sets["internal/engine/interpreter"], sets["internal/engine/wazevo"]
			var diff []string
			for k := range a {
				if !b[k] {
					diff = append(diff, k+" (interpreter only)")
				}
			}
			for k := range b {
				if !a[k] {
					diff = append(diff, k+" (compiler only)")
				}
			}
			sort.Strings(diff)
			c.Check(len(diff) == 0, "R06.4", "engines raise the same wasmruntime errors", 0, fmt.Sprintf("%d error kinds in both", len(a)),
				"the two engines do not raise the same set of run-time errors: "+strings.Join(diff, ", ")+" – one engine reports a trap the other maps to a different kind")
		}
	}

	// ---- R06.5 ceilings
	checkCeiling := func(name string, p string, recv string) {
		pk := c.Pkg(p)
		if pk == nil {
			return
		}
		info := pk.TypesInfo
		found := false
		core.AllFuncDecls(pk, func(fd *ast.FuncDecl) {
			if core.RecvName(fd) != recv {
				return
			}
			// a function in which a branch on a comparison with a ceiling constant (possibly named by a local) yields
			// ErrRuntimeStackOverflow – in either arm of the branch, wherever it stands in the function
			localDef := map[types.Object]ast.Expr{}
			ast.Inspect(fd.Body, func(n ast.Node) bool {
				if as, ok := n.(*ast.AssignStmt); ok && as.Tok == token.DEFINE && len(as.Lhs) == len(as.Rhs) {
					for i, l := range as.Lhs {
						if id, ok := l.(*ast.Ident); ok && info.Defs[id] != nil {
							localDef[info.Defs[id]] = as.Rhs[i]
						}
					}
				}
				return true
			})
			var mentions func(e ast.Node, d int) bool
			mentions = func(e ast.Node, d int) bool {
				r := false
				ast.Inspect(e, func(n ast.Node) bool {
					if id, ok := n.(*ast.Ident); ok {
						if strings.Contains(strings.ToLower(id.Name), "ceiling") {
							r = true
						} else if def, ok := localDef[info.Uses[id]]; ok && d < 3 && mentions(def, d+1) {
							r = true
						}
					}
					return !r
				})
				return r
			}
			ast.Inspect(fd.Body, func(x ast.Node) bool {
				is, ok := x.(*ast.IfStmt)
				if !ok || !mentions(is.Cond, 0) {
					return true
				}
				ast.Inspect(is, func(n ast.Node) bool {
					if se, ok := n.(*ast.SelectorExpr); ok && se.Sel.Name == "ErrRuntimeStackOverflow" && isRuntimeErr(info, se) {
						found = true
					}
					return true
				})
				return true
			})
		})
		c.Check(found, "R06.5", name+" stack ceiling", 0, "growth is preceded by a comparison with the ceiling that reports ErrRuntimeStackOverflow",
			"no function of the "+name+" call engine compares the stack size with its ceiling before growing: unbounded recursion exhausts host memory instead of returning a stack-overflow error")
	}
	checkCeiling("interpreter", "internal/engine/interpreter", "callEngine")
	if pk := c.Pkg("internal/engine/interpreter"); pk != nil {
		info := pk.TypesInfo
		n := 0
		core.AllFuncDecls(pk, func(fd *ast.FuncDecl) {
			ast.Inspect(fd.Body, func(x ast.Node) bool {
				as, ok := x.(*ast.AssignStmt)
				if !ok || len(as.Lhs) != 1 || len(as.Rhs) != 1 {
					return true
				}
				f := core.FieldOf(info, as.Lhs[0])
				call, isCall := as.Rhs[0].(*ast.CallExpr)
				if f == nil || f.Name() != "frames" || !strings.Contains(f.Type().String(), "callFrame") || !isCall || !core.IsBuiltin(info, call, "append") {
					return true
				}
				n++
				guard := false
				// a helper that makes the comparison (one level) counts when it is called before the append
				ast.Inspect(fd.Body, func(y ast.Node) bool {
					if call, ok := y.(*ast.CallExpr); ok && call.Pos() < as.Pos() {
						if f := core.Callee(info, call); f != nil && interpCeilingCheckers(pk)[f.Name()] {
							guard = true
						}
					}
					return true
				})
				ast.Inspect(fd.Body, func(y ast.Node) bool {
					is, ok := y.(*ast.IfStmt)
					if !ok || is.Pos() > as.Pos() {
						return true
					}
					ceil, over := false, false
					ast.Inspect(is.Cond, func(z ast.Node) bool {
						if id, ok := z.(*ast.Ident); ok && strings.Contains(strings.ToLower(id.Name), "ceiling") {
							ceil = true
						}
						return true
					})
					ast.Inspect(is.Body, func(z ast.Node) bool {
						if se, ok := z.(*ast.SelectorExpr); ok && se.Sel.Name == "ErrRuntimeStackOverflow" && isRuntimeErr(info, se) {
							over = true
						}
						return true
					})
					if ceil && over {
						guard = true
					}
					return true
				})
				c.Check(guard, "R06.5", "interpreter "+fd.Name.Name+": the frame stack grows only after the ceiling comparison", as.Pos(), "the append to the frame stack is preceded by the ceiling check in the same function",
					"the frame stack is appended to without a ceiling comparison in the same function: unbounded recursion exhausts host memory instead of returning a stack-overflow error")
				return true
			})
		})
		if n == 0 {
			c.Undecided("R06.5", "interpreter frame-stack growth", 0, "no append to the frame stack found")
		}
	}
	checkCeiling("wazevo", "internal/engine/wazevo", "callEngine")

	// ---- R06.6 closed word encoding
	closedMI := structField(c, "internal/wasm", "ModuleInstance", "Closed")
	n := 0
	for _, fn := range moduleFns(c, "internal/wasm") {
		for _, b := range fn.Blocks {
			for _, in := range b.Instrs {
				call, ok := in.(*ssa.Call)
				if !ok {
					continue
				}
				callee := call.Common().StaticCallee()
				if callee == nil || callee.Name() != "CompareAndSwap" || len(call.Common().Args) != 3 {
					continue
				}
				fa, ok := call.Common().Args[0].(*ssa.FieldAddr)
				if !ok {
					continue
				}
				if st, _ := derefStructT(fa.X.Type()).Underlying().(*types.Struct); st == nil || st.Field(fa.Field) != closedMI {
					continue
				}
				n++
				old, nw := call.Common().Args[1], call.Common().Args[2]
				okEnc := false
				why := ""
				if k, isK := old.(*ssa.Const); isK && k.Value != nil && k.Uint64() == 0 {
					// from 0: new must contain (x << 32)
					okEnc = containsShl32(nw, 0)
					why = "the new closed word is not built as flag | uint64(exitCode)<<32"
				} else {
					// flag transition: new = (old &^ mask) | flag
					okEnc = isFlagOnlyUpdate(nw, old)
					why = "the new closed word is not (old &^ flagMask) | flag: the exit code in the high half is lost, so later calls report exit code 0 / a different error"
				}
				c.Check(okEnc, "R06.6", "closed-word transition in "+fn.String(), call.Pos(), "the exit code stays in the high 32 bits", why)
			}
		}
	}
	if n < 2 {
		c.Undecided("R06.6", "closed-word transitions", 0, fmt.Sprintf("only %d CompareAndSwap on ModuleInstance.Closed found", n))
	}
}

func isErrIdent(info *types.Info, e ast.Expr) bool {
	id, ok := ast.Unparen(e).(*ast.Ident)
	if !ok {
		return false
	}
	if v, ok := info.Uses[id].(*types.Var); ok {
		return v.Type().String() == "error"
	}
	return false
}

func resumeCalls(info *types.Info, cc *ast.CaseClause) []*ast.CallExpr {
	var out []*ast.CallExpr
	ast.Inspect(cc, func(n ast.Node) bool {
		if call, ok := n.(*ast.CallExpr); ok {
			if f := core.Callee(info, call); f != nil && strings.HasPrefix(f.Name(), "afterGoFunctionCallEntrypoint") {
				out = append(out, call)
			}
		}
		return true
	})
	return out
}

func assignsExitOKDirect(info *types.Info, s ast.Stmt, okK types.Object) bool {
	as, ok := s.(*ast.AssignStmt)
	if !ok || len(as.Lhs) != 1 || len(as.Rhs) != 1 {
		return false
	}
	f := core.FieldOf(info, as.Lhs[0])
	return f != nil && f.Name() == "exitCode" && core.UsesObj(info, as.Rhs[0], okK)
}

func assignsExitOK(info *types.Info, s ast.Stmt, okK types.Object) bool {
	return assignsExitOKDirect(info, s, okK)
}

func containsShl32(v ssa.Value, d int) bool {
	if v == nil || d > 6 {
		return false
	}
	switch x := v.(type) {
	case *ssa.BinOp:
		if x.Op == token.SHL {
			if k, ok := x.Y.(*ssa.Const); ok && k.Value != nil && k.Uint64() == 32 {
				return true
			}
		}
		return containsShl32(x.X, d+1) || containsShl32(x.Y, d+1)
	case *ssa.Convert:
		return containsShl32(x.X, d+1)
	case *ssa.Phi:
		for _, e := range x.Edges {
			if containsShl32(e, d+1) {
				return true
			}
		}
	}
	return false
}

// isFlagOnlyUpdate: the high 32 bits of nw are exactly those of old (abstract evaluation over {old, zero, unknown}).
func isFlagOnlyUpdate(nw, old ssa.Value) bool {
	return highHalf(nw, old, 0) == 1
}

// highHalf returns 1 if the high half of v equals that of old, 0 if it is zero, -1 otherwise.
func highHalf(v, old ssa.Value, d int) int {
	if v == old {
		return 1
	}
	if d > 8 {
		return -1
	}
	switch x := v.(type) {
	case *ssa.Const:
		if x.Value != nil && x.Uint64() < 1<<32 {
			return 0
		}
	case *ssa.Convert:
		if b, ok := x.X.Type().Underlying().(*types.Basic); ok && (b.Kind() == types.Uint32 || b.Kind() == types.Uint16 || b.Kind() == types.Uint8) {
			return 0
		}
		return highHalf(x.X, old, d+1)
	case *ssa.BinOp:
		l, r := highHalf(x.X, old, d+1), highHalf(x.Y, old, d+1)
		switch x.Op {
		case token.OR, token.XOR:
			if l == 0 {
				return r
			}
			if r == 0 {
				return l
			}
			if l == 1 && r == 1 && x.Op == token.OR {
				return 1
			}
		case token.AND:
			if l == 0 || r == 0 {
				return 0
			}
			if k, ok := x.Y.(*ssa.Const); ok && k.Value != nil && k.Uint64()>>32 == 0xffffffff {
				return l
			}
			if k, ok := x.X.(*ssa.Const); ok && k.Value != nil && k.Uint64()>>32 == 0xffffffff {
				return r
			}
			if l == 1 && r == 1 {
				return 1
			}
		case token.AND_NOT:
			if l == 0 {
				return 0
			}
			if r == 0 {
				return l
			}
		}
	}
	return -1
}

var errorIface = types.Universe.Lookup("error").Type().Underlying().(*types.Interface)

var _ = sort.Strings

// ---- R06.7 the cancellation watcher of a call is stopped on every exit, including panics ----

func checkWatcherStopped(c *core.Ctx) {
	n := 0
	for _, e := range []struct{ name, rel string }{{"interpreter", "internal/engine/interpreter"}, {"compiler", "internal/engine/wazevo"}} {
		p := c.Pkg(e.rel)
		if p == nil {
			continue
		}
		info := p.TypesInfo
		core.AllFuncDecls(p, func(fd *ast.FuncDecl) {
			ast.Inspect(fd.Body, func(x ast.Node) bool {
				as, ok := x.(*ast.AssignStmt)
				if !ok || len(as.Rhs) != 1 || len(as.Lhs) != 1 {
					return true
				}
				call, ok := as.Rhs[0].(*ast.CallExpr)
				if !ok {
					return true
				}
				se, ok := call.Fun.(*ast.SelectorExpr)
				if !ok || se.Sel.Name != "CloseModuleOnCanceledOrTimeout" {
					return true
				}
				id, ok := as.Lhs[0].(*ast.Ident)
				if !ok {
					return true
				}
				done := info.Defs[id]
				n++
				deferred := false
				ast.Inspect(fd.Body, func(y ast.Node) bool {
					if ds, ok := y.(*ast.DeferStmt); ok {
						if f, ok := ds.Call.Fun.(*ast.Ident); ok && info.Uses[f] == done {
							deferred = true
						}
					}
					return true
				})
				c.Check(deferred, "R06.7", e.name+": the context watcher started in "+core.FuncName(p, fd)+" is stopped by a deferred call", call.Pos(),
					"`defer done()`: it also runs when the call leaves through a trap or host panic",
					"the watcher's cancel function is not deferred: when the call fails through a panic the watcher goroutine stays alive, and when that call's context is later cancelled or expires it closes the otherwise healthy instance – every later call returns `module closed with context canceled`")
				return true
			})
		})
	}
	if n < 2 {
		c.Undecided("R06.7", "context watchers", 0, fmt.Sprintf("only %d watcher start(s) found in the engines", n))
	}
}

// blocksOf lists every statement list (with its statements) nested in n.
func blocksOf(n ast.Node) []*ast.BlockStmt {
	var out []*ast.BlockStmt
	ast.Inspect(n, func(x ast.Node) bool {
		switch y := x.(type) {
		case *ast.BlockStmt:
			out = append(out, y)
		case *ast.CaseClause:
			out = append(out, &ast.BlockStmt{List: y.Body})
		case *ast.CommClause:
			out = append(out, &ast.BlockStmt{List: y.Body})
		}
		return true
	})
	return out
}

// interpCeilingCheckers: functions of the package whose body compares with a ceiling and reports the stack-overflow error.
func interpCeilingCheckers(pk *packages.Package) map[string]bool {
	info := pk.TypesInfo
	out := map[string]bool{}
	core.AllFuncDecls(pk, func(fd *ast.FuncDecl) {
		ast.Inspect(fd.Body, func(y ast.Node) bool {
			is, ok := y.(*ast.IfStmt)
			if !ok {
				return true
			}
			ceil, over := false, false
			ast.Inspect(is.Cond, func(z ast.Node) bool {
				if id, ok := z.(*ast.Ident); ok && strings.Contains(strings.ToLower(id.Name), "ceiling") {
					ceil = true
				}
				return true
			})
			ast.Inspect(is.Body, func(z ast.Node) bool {
				if se, ok := z.(*ast.SelectorExpr); ok && se.Sel.Name == "ErrRuntimeStackOverflow" && info != nil {
					over = true
				}
				return true
			})
			if ceil && over {
				out[fd.Name.Name] = true
			}
			return true
		})
	})
	return out
}
