package props

import (
	"fmt"
	"go/ast"
	"go/token"
	"go/types"
	"golang.org/x/tools/go/ssa"
	"sort"
	"strings"

	"verif/checker/core"
)

// ---- R03.12 – R03.16 (defects found by the bug hunt of the last session) ----

func checkBaseline3C03(c *core.Ctx) {
	checkElementLoopsSkipNonActive(c)
	checkPrefixSubOpcodeDecoding(c)
	checkDwarfGuards(c)
	checkTailCallResultTypes(c)
	checkNoQuadraticStringBuilding(c)
	checkScratchFieldsPrivate(c)
}

// R03.12: instantiation-time loops over the element segments that look up the segment's table (offset / bounds / writes)
// only treat active segments: passive and declarative ones have no table and no offset.
func checkElementLoopsSkipNonActive(c *core.Ctx) {
	p := c.Pkg("internal/wasm")
	if p == nil {
		return
	}
	info := p.TypesInfo
	n := 0
	core.AllFuncDecls(p, func(fd *ast.FuncDecl) {
		// instantiation-time code: methods of ModuleInstance / Store (the validator has its own mode switch: R03.1)
		if r := core.RecvName(fd); r != "ModuleInstance" && r != "Store" {
			return
		}
		ast.Inspect(fd.Body, func(x ast.Node) bool {
			var body *ast.BlockStmt
			switch l := x.(type) {
			case *ast.RangeStmt:
				body = l.Body
			case *ast.ForStmt:
				body = l.Body
			default:
				return true
			}
			// does the loop body index a table slice by a segment's TableIndex?
			var use token.Pos
			ast.Inspect(body, func(y ast.Node) bool {
				if ix, ok := y.(*ast.IndexExpr); ok && use == 0 {
					if se, ok := ast.Unparen(ix.Index).(*ast.SelectorExpr); ok && se.Sel.Name == "TableIndex" {
						if t := info.Types[se.X].Type; t != nil && strings.Contains(t.String(), "ElementSegment") {
							use = ix.Pos()
						}
					}
				}
				return true
			})
			if use == 0 {
				return true
			}
			n++
			// a guard on the segment's mode before that use: IsActive() or a comparison of Mode
			guard := false
			for _, st := range body.List {
				if st.Pos() > use {
					break
				}
				is, ok := st.(*ast.IfStmt)
				if !ok {
					continue
				}
				ast.Inspect(is.Cond, func(y ast.Node) bool {
					switch z := y.(type) {
					case *ast.CallExpr:
						if f := core.Callee(info, z); f != nil && f.Name() == "IsActive" {
							guard = true
						}
					case *ast.SelectorExpr:
						if z.Sel.Name == "Mode" {
							guard = true
						}
					}
					return true
				})
			}
			c.Check(guard, "R03.12", "loop over element segments in "+core.FuncName(p, fd)+" looks up the table of active segments only", use,
				"the segment's mode is tested before its table is looked up",
				"the loop looks up m.Tables[elem.TableIndex] (and the offset expression) of every segment: a passive or declarative segment has neither, so a module without a table panics (index out of range) when instantiated and one with a small table is refused")
			return true
		})
	})
	c.Count("element_loops_with_table_lookup", n)
	if n == 0 {
		c.Undecided("R03.12", "instantiation-time loops over element segments", 0, "none found")
	}
}

// R03.13: the sub-opcode after the 0xFC prefix is a LEB128 u32: every reader that dispatches on it decodes it the same way
// (validator, interpreter lowering, interpreter signature table, compiler frontend).
func checkPrefixSubOpcodeDecoding(c *core.Ctx) {
	n := 0
	prefixes := []struct{ prefix, sub, what string }{
		{"OpcodeMiscPrefix", "OpcodeMisc", "misc (0xFC)"},
		{"OpcodeVecPrefix", "OpcodeVec", "vector (0xFD)"},
		{"OpcodeAtomicPrefix", "OpcodeAtomic", "atomic (0xFE)"},
	}
	for _, rel := range []string{"internal/wasm", "internal/engine/interpreter", "internal/engine/wazevo/frontend"} {
		p := c.Pkg(rel)
		if p == nil {
			continue
		}
		info := p.TypesInfo
		ord := map[string]int{}
		core.AllFuncDecls(p, func(fd *ast.FuncDecl) {
			ast.Inspect(fd.Body, func(x ast.Node) bool {
				for _, pf := range prefixes {
					// arms for the prefix: `case OpcodeXPrefix:` clauses and `if op == OpcodeXPrefix` branches
					var arm ast.Node
					switch y := x.(type) {
					case *ast.CaseClause:
						for _, l := range y.List {
							if constNameOf(info, l) == pf.prefix {
								arm = y
							}
						}
					case *ast.IfStmt:
						if be, ok := ast.Unparen(y.Cond).(*ast.BinaryExpr); ok && be.Op == token.EQL {
							if constNameOf(info, be.Y) == pf.prefix || constNameOf(info, be.X) == pf.prefix {
								arm = y.Body
							}
						}
					}
					if arm == nil {
						continue
					}
					// the (outermost) nested switch dispatching on the sub-opcode
					done := false
					ast.Inspect(arm, func(z ast.Node) bool {
						sw, ok := z.(*ast.SwitchStmt)
						if !ok || done {
							return !done
						}
						dispatches := false
						for _, cs := range sw.Body.List {
							for _, l := range cs.(*ast.CaseClause).List {
								if k := constNameOf(info, l); strings.HasPrefix(k, pf.sub) && !strings.HasSuffix(k, "Prefix") {
									dispatches = true
								}
							}
						}
						if !dispatches {
							return true
						}
						done = true
						n++
						// where does the switched value come from? (a local is resolved to what it was bound to inside the arm)
						rawByte := false
						var check func(e ast.Expr, depth int)
						check = func(e ast.Expr, depth int) {
							if id, ok := ast.Unparen(e).(*ast.Ident); ok && depth < 2 {
								if o := info.Uses[id]; o != nil {
									ast.Inspect(arm, func(w ast.Node) bool {
										if as, ok := w.(*ast.AssignStmt); ok && len(as.Lhs) == len(as.Rhs) && as.Pos() < sw.Pos() {
											for i, l := range as.Lhs {
												if lid, ok := l.(*ast.Ident); ok && (info.Defs[lid] == o || info.Uses[lid] == o) {
													check(as.Rhs[i], depth+1)
												}
											}
										}
										return true
									})
								}
								return
							}
							ast.Inspect(e, func(w ast.Node) bool {
								if ix, ok := w.(*ast.IndexExpr); ok {
									if t := info.Types[ix.X].Type; t != nil {
										if sl, ok := t.Underlying().(*types.Slice); ok && basicKind(sl.Elem()) == types.Uint8 {
											rawByte = true
										}
									}
								}
								return true
							})
						}
						if sw.Init != nil {
							if as, ok := sw.Init.(*ast.AssignStmt); ok {
								for _, r := range as.Rhs {
									check(r, 0)
								}
							}
						} else if sw.Tag != nil {
							check(sw.Tag, 0)
						}
						leb := false
						ast.Inspect(arm, func(w ast.Node) bool {
							if call, ok := w.(*ast.CallExpr); ok && call.Pos() < sw.Body.Pos() {
								if f := core.Callee(info, call); f != nil {
									if f.Name() == "LoadUint32" {
										leb = true
									}
									// a one-level helper of the package that decodes it
									core.AllFuncDecls(p, func(g *ast.FuncDecl) {
										if info.Defs[g.Name] != types.Object(f) || g == fd {
											return
										}
										ast.Inspect(g.Body, func(v ast.Node) bool {
											if c2, ok := v.(*ast.CallExpr); ok {
												if f2 := core.Callee(info, c2); f2 != nil && f2.Name() == "LoadUint32" {
													leb = true
												}
											}
											return true
										})
									})
								}
							}
							return true
						})
						ord[pf.prefix]++
						// keyed by prefix, package and ordinal – not by the enclosing function
						construct := fmt.Sprintf("%s sub-opcode dispatch #%d in %s decodes the sub-opcode as LEB128", pf.what, ord[pf.prefix], rel)
						c.Check(!rawByte && leb, "R03.13", construct, sw.Pos(),
							"the dispatched value comes from leb128.LoadUint32 ("+core.FuncName(p, fd)+")",
							"in "+core.FuncName(p, fd)+" the sub-opcode is taken as the single byte after the prefix, although it is a LEB128 u32 that need not be in its shortest form: a validly padded encoding selects a different instruction (FD 8E 00 = i8x16.swizzle is executed as i16x8.add; unreachable) or is refused; the canonical two-byte forms of sub-opcodes ≥ 0x80 only work because the second byte happens to be a nop")
						return false
					})
				}
				return true
			})
		})
	}
	c.Count("prefix_subopcode_dispatches", n)
	if n < 9 {
		c.Undecided("R03.13", "prefix sub-opcode dispatches", 0, fmt.Sprintf("only %d found (validator, interpreter lowering, interpreter signature and frontend for each of the three prefixes expected)", n))
	}
}

// R03.14: DWARF sections are accepted unvalidated and read inside the engines' recover handlers, so the reader must not
// trust them: pointers from debug/dwarf are nil-tested before use and a run of null entries is bounded.
func checkDwarfGuards(c *core.Ctx) {
	p := c.Pkg("internal/wasmdebug")
	if p == nil {
		return
	}
	info := p.TypesInfo
	n := 0
	core.AllFuncDecls(p, func(fd *ast.FuncDecl) {
		// (a) field selections through a *dwarf.LineFile (LineEntry.File, elements of LineReader.Files())
		guards := map[string]bool{}
		ast.Inspect(fd.Body, func(x ast.Node) bool {
			if be, ok := x.(*ast.BinaryExpr); ok && (be.Op == token.EQL || be.Op == token.NEQ) {
				if id, ok := be.Y.(*ast.Ident); ok && id.Name == "nil" {
					guards[core.ExprStr(be.X)] = true
				}
			}
			return true
		})
		alias := map[string]string{}
		ast.Inspect(fd.Body, func(x ast.Node) bool {
			if as, ok := x.(*ast.AssignStmt); ok && len(as.Lhs) == 1 && len(as.Rhs) == 1 {
				alias[core.ExprStr(as.Lhs[0])] = core.ExprStr(as.Rhs[0])
			}
			return true
		})
		ast.Inspect(fd.Body, func(x ast.Node) bool {
			se, ok := x.(*ast.SelectorExpr)
			if !ok {
				return true
			}
			t := info.Types[se.X].Type
			if t == nil || t.String() != "*debug/dwarf.LineFile" {
				return true
			}
			n++
			base := core.ExprStr(se.X)
			ok2 := guards[base] || guards[alias[base]]
			c.Check(ok2, "R03.14", "wasmdebug "+fd.Name.Name+": `"+core.ExprStr(se)+"` is used only after a nil test", se.Pos(),
				"`"+base+"` is compared with nil in the same function",
				"`"+base+"` (a *dwarf.LineFile taken from unvalidated DWARF data) is dereferenced without a nil test: a file index outside the file table gives nil, and the dereference happens inside the engines' recover handler, so an ordinary trap panics out of api.Function.Call")
			return true
		})
		// (b) loops reading entries bound the run of null entries
		ast.Inspect(fd.Body, func(x ast.Node) bool {
			fs, ok := x.(*ast.ForStmt)
			if !ok || fs.Cond != nil {
				return true
			}
			readsEntries := false
			ast.Inspect(fs.Body, func(y ast.Node) bool {
				if call, ok := y.(*ast.CallExpr); ok {
					if f := core.Callee(info, call); f != nil && f.Name() == "Next" && f.Type().(*types.Signature).Recv() != nil &&
						strings.HasSuffix(f.Type().(*types.Signature).Recv().Type().String(), "dwarf.Reader") {
						readsEntries = true
					}
				}
				return true
			})
			if !readsEntries {
				return true
			}
			n++
			bounded := false
			ast.Inspect(fs.Body, func(y ast.Node) bool {
				is, ok := y.(*ast.IfStmt)
				if !ok {
					return true
				}
				// a counter compared with a bound, with a break/return in the branch
				cmp := false
				ast.Inspect(is, func(z ast.Node) bool {
					if be, ok := z.(*ast.BinaryExpr); ok && (be.Op == token.GTR || be.Op == token.GEQ) {
						if _, isConst := core.ConstVal(info, be.Y); isConst {
							cmp = true
						}
					}
					return true
				})
				leaves := false
				ast.Inspect(is, func(z ast.Node) bool {
					switch w := z.(type) {
					case *ast.BranchStmt:
						if w.Tok == token.BREAK {
							leaves = true
						}
					case *ast.ReturnStmt:
						leaves = true
					}
					return true
				})
				if cmp && leaves {
					bounded = true
				}
				return true
			})
			c.Check(bounded, "R03.14", "wasmdebug "+fd.Name.Name+": the loop over DWARF entries is bounded when the reader stops advancing", fs.Pos(),
				"a counter compared with a constant leaves the loop",
				"the loop reads entries until the reader reports the end: on a .debug_info ending in an unterminated LEB128 debug/dwarf returns null entries for ever without advancing, so the first trap of such a module never returns (and holds the DWARF mutex)")
			return true
		})
	})
	c.Count("dwarf_guards", n)
	if n == 0 {
		c.Undecided("R03.14", "DWARF reader", 0, "no uses found")
	}
}

// R03.15: a tail call returns to the caller's caller: the validator compares the callee's result types with the function's.
func checkTailCallResultTypes(c *core.Ctx) {
	p := c.Pkg("internal/wasm")
	if p == nil {
		return
	}
	info := p.TypesInfo
	n := 0
	core.AllFuncDecls(p, func(fd *ast.FuncDecl) {
		ast.Inspect(fd.Body, func(x ast.Node) bool {
			is, ok := x.(*ast.IfStmt)
			if !ok {
				return true
			}
			be, ok := ast.Unparen(is.Cond).(*ast.BinaryExpr)
			if !ok || be.Op != token.EQL {
				return true
			}
			name := constNameOf(info, be.Y)
			if name != "OpcodeTailCallReturnCall" && name != "OpcodeTailCallReturnCallIndirect" {
				return true
			}
			// the branch body with the bodies of package-level helpers it calls spliced in (one level)
			bodies := []ast.Node{is.Body}
			ast.Inspect(is.Body, func(y ast.Node) bool {
				if call, ok := y.(*ast.CallExpr); ok {
					if f := core.Callee(info, call); f != nil {
						core.AllFuncDecls(p, func(g *ast.FuncDecl) {
							if info.Defs[g.Name] == types.Object(f) && g != fd {
								bodies = append(bodies, g.Body)
							}
						})
					}
				}
				return true
			})
			// only the validator's branches: they require the feature
			requires := false
			for _, b := range bodies {
				ast.Inspect(b, func(y ast.Node) bool {
					if call, ok := y.(*ast.CallExpr); ok {
						if f := core.Callee(info, call); f != nil && f.Name() == "RequireEnabled" {
							requires = true
						}
					}
					return true
				})
			}
			if !requires {
				return true
			}
			n++
			compares := false
			for _, b := range bodies {
				ast.Inspect(b, func(y ast.Node) bool {
					call, ok := y.(*ast.CallExpr)
					if !ok {
						return true
					}
					f := core.Callee(info, call)
					if f == nil || (f.Name() != "Equal" && f.Name() != "EqualsSignature") {
						return true
					}
					res := 0
					for _, a := range call.Args {
						if strings.HasSuffix(core.ExprStr(a), ".Results") || exprMentions(info, fd.Body, a, "Results") {
							res++
						}
					}
					if res >= 2 || (f.Name() == "EqualsSignature" && res >= 1) {
						compares = true
					}
					return true
				})
			}
			c.Check(compares, "R03.15", "validator: "+name+" compares the callee's result types with the function's", is.Pos(),
				"the two Results lists are compared for equality",
				"only the operand stack is checked against the function's results after pushing the callee's: (func (result i32) i32.const 42 return_call $void) is accepted, and the engines then fail internally (slice bounds out of range in the interpreter, a garbage result – possibly used as a reference – in the compiler)")
			return true
		})
	})
	c.Count("tail_call_validator_branches", n)
	if n < 2 {
		c.Undecided("R03.15", "validator branches of the tail calls", 0, fmt.Sprintf("%d found, 2 expected", n))
	}
}

// R03.16: on the decode path no string is built by concatenation in a loop over input-sized data (quadratic time and
// allocation in the size of the input).
func checkNoQuadraticStringBuilding(c *core.Ctx) {
	n := 0
	for _, rel := range []string{"internal/wasm", "internal/wasm/binary"} {
		p := c.Pkg(rel)
		if p == nil {
			continue
		}
		info := p.TypesInfo
		core.AllFuncDecls(p, func(fd *ast.FuncDecl) {
			var loops []ast.Node
			ast.Inspect(fd.Body, func(x ast.Node) bool {
				switch l := x.(type) {
				case *ast.RangeStmt:
					// loops over slices (input-sized); arrays and constants are bounded
					if t := info.Types[l.X].Type; t != nil {
						if _, ok := t.Underlying().(*types.Slice); ok {
							loops = append(loops, l)
						}
					}
				case *ast.ForStmt:
					loops = append(loops, l)
				}
				return true
			})
			for _, l := range loops {
				ast.Inspect(l, func(x ast.Node) bool {
					as, ok := x.(*ast.AssignStmt)
					if !ok || as.Tok != token.ADD_ASSIGN || len(as.Lhs) != 1 {
						return true
					}
					t := info.Types[as.Lhs[0]].Type
					if t == nil || basicKind(t) != types.String {
						return true
					}
					// declared outside the loop?
					if id, ok := as.Lhs[0].(*ast.Ident); ok {
						if o := info.Uses[id]; o != nil && o.Pos() >= l.Pos() && o.Pos() <= l.End() {
							return true
						}
					}
					n++
					c.Violate("R03.16", "string built by += in a loop over a slice in "+core.FuncName(p, fd), as.Pos(),
						"`"+core.ExprStr(as.Lhs[0])+" += "+core.ExprStr(as.Rhs[0])+"` inside a loop over input-sized data copies the whole string per iteration: decoding is quadratic in the input (e.g. 33GB allocated for a 146KiB module with one 150k-parameter function type); use a strings.Builder")
					return true
				})
			}
		})
	}
	c.Count("quadratic_string_sites", n)
	c.Discharge("R03.16", "no string concatenation in loops over input-sized data on the decode path", 0, "internal/wasm and internal/wasm/binary scanned")
}

// R03.17: a scratch buffer (a slice field which a method of its struct resets to length 0 and refills) belongs to the methods
// of that struct: anything else that keeps a slice of it is overwritten by the owner's next use.
func checkScratchFieldsPrivate(c *core.Ctx) {
	c.SSA()
	fns := moduleFns(c, "internal/wasm")
	type key struct {
		named *types.Named
		field int
	}
	scratch := map[key]bool{}
	recvOf := func(fn *ssa.Function) *types.Named {
		top := fn
		for top.Parent() != nil {
			top = top.Parent()
		}
		if top.Signature.Recv() == nil {
			return nil
		}
		return core.NamedOf(top.Signature.Recv().Type())
	}
	for _, fn := range fns {
		rn := recvOf(fn)
		if rn == nil {
			continue
		}
		for _, b := range fn.Blocks {
			for _, in := range b.Instrs {
				st, ok := in.(*ssa.Store)
				if !ok {
					continue
				}
				fa, ok := st.Addr.(*ssa.FieldAddr)
				if !ok || core.NamedOf(fa.X.Type()) != rn {
					continue
				}
				sl, ok := st.Val.(*ssa.Slice)
				if !ok || sl.High == nil {
					continue
				}
				if k, isK := sl.High.(*ssa.Const); !isK || k.Value == nil || k.Int64() != 0 {
					continue
				}
				if ld, ok := sl.X.(*ssa.UnOp); ok {
					if fa2, ok := ld.X.(*ssa.FieldAddr); ok && fa2.Field == fa.Field && core.NamedOf(fa2.X.Type()) == rn {
						// … and the same method refills it (append stored back into the field): reset-and-refill per operation
						refills := false
						for _, b2 := range fn.Blocks {
							for _, in2 := range b2.Instrs {
								st2, ok := in2.(*ssa.Store)
								if !ok || st2 == st {
									continue
								}
								fa3, ok := st2.Addr.(*ssa.FieldAddr)
								if !ok || fa3.Field != fa.Field || core.NamedOf(fa3.X.Type()) != rn {
									continue
								}
								if call, ok := st2.Val.(*ssa.Call); ok {
									if bi, ok := call.Common().Value.(*ssa.Builtin); ok && bi.Name() == "append" {
										refills = true
									}
								}
							}
						}
						if refills {
							scratch[key{rn, fa.Field}] = true
						}
					}
				}
			}
		}
	}
	n := 0
	for k := range scratch {
		n++
		fname := k.named.Obj().Name() + "." + k.named.Underlying().(*types.Struct).Field(k.field).Name()
		var bad []string
		for _, fn := range fns {
			if recvOf(fn) == k.named {
				continue
			}
			for _, b := range fn.Blocks {
				for _, in := range b.Instrs {
					if fa, ok := in.(*ssa.FieldAddr); ok && fa.Field == k.field && core.NamedOf(fa.X.Type()) == k.named {
						bad = append(bad, core.SSAFuncName(fn)+" at "+c.Pos(fa.Pos()))
					}
				}
			}
		}
		sort.Strings(bad)
		c.Check(len(bad) == 0, "R03.17", "scratch buffer "+fname+" is used only by the methods of its struct", k.named.Obj().Pos(),
			"no access outside the methods of "+k.named.Obj().Name(),
			"accessed from "+strings.Join(bad, "; ")+": the owner resets and refills this buffer on its next call, so a slice of it kept elsewhere (e.g. the expected label types of br_table) is silently overwritten – the validator then compares popped types with themselves and accepts ill-typed code")
	}
	c.Count("scratch_fields", n)
	if n == 0 {
		c.Undecided("R03.17", "scratch buffers of the validator", 0, "none found")
	}
}
