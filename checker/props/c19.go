package props

import (
	"fmt"
	"go/types"
	"sort"
	"strings"

	"golang.org/x/tools/go/ssa"

	"verif/checker/core"
)

// C19 Configuration values are immutable.
//
// Theorem decided: every instruction of the module that writes memory owned by a
// configuration value (a field of a configuration struct, or memory reachable
// through one of its slice/map/pointer fields, including aliases that escaped
// into other structures) writes to memory allocated fresh in the same
// activation and not yet published.

func init() {
	core.Register(&core.Property{
		ID:    "C19",
		Level: "proof",
		Explanation: "Decided for every input/history: no With… method, constructor, clone helper or consumer of a RuntimeConfig/ModuleConfig/FSConfig/sock.Config " +
			"writes to memory owned by an already-published configuration value. All instructions of the module that write through a reference are enumerated " +
			"(field store, element store, pointer store, map update/delete, append, copy destination, clear); a may-alias analysis (field-based, call-graph VTA∪CHA) selects those that may touch " +
			"configuration-owned memory, and a flow-sensitive freshness analysis must prove each of them writes an object/referent allocated in the same activation. " +
			"(R19.5) No configuration method stores a slice or map parameter itself: such a parameter is the caller's memory (f(names...)), which the proof above – about writes made by wazero – does not cover (genuine defect found and fixed: WithStartFunctions kept the caller's slice, so deriving a sibling configuration with append(common, x)... changed it). " +
			"Not decided: behaviour of embedder-supplied objects referenced from a configuration (io.Reader, fs.FS, listeners).",
		Assumptions: []string{
			"functions outside the module do not retain their arguments; stdlib functions that write through an argument are listed in a table (sort.*, slices.*, io.ReadFull, ...)",
			"no reflect/unsafe/linkname access to configuration structs (enumerated by rule R19.4)",
		},
		TrustedBase: []string{"field-based alias abstraction in checker/core/alias.go", "freshness dataflow in checker/core/fresh.go"},
		Rules: []core.Rule{
			{ID: "R19.0", Template: "anchor", Text: "configuration struct types are the concrete types implementing wazero.RuntimeConfig, wazero.ModuleConfig, wazero.FSConfig, experimental/sock.Config, closed under pointer fields to module structs", Min: 4},
			{ID: "R19.1", Template: "T-OWN", Text: "every With… method (and constructor/clone) writes only to objects and referents that are fresh in that activation: whole-field replacement on a fresh object is allowed; element stores, appends, map updates need a referent proven fresh", Min: 29},
			{ID: "R19.2", Template: "T-WHOWRITES", Text: "no other function of the module writes configuration-owned memory or an alias of it", Min: 1},
			{ID: "R19.5", Template: "T-OWN", Text: "no configuration method stores a slice or map parameter itself (caller-owned memory) in a configuration (genuine defect found and fixed: WithStartFunctions)", Min: 3},
			{ID: "R19.4", Template: "T-CAP", Text: "no reflect/unsafe use in the packages that define configuration types", Min: 1},
		},
		Run: runC19,
		Controls: []core.Control{
			{Name: "start-functions-alias-the-argument", File: "config.go", Old: "\tret.startFunctions = append([]string(nil), startFunctions...)\n", New: "\tret.startFunctions = startFunctions\n", Rule: "R19.5", Substr: "WithStartFunctions"},
			{Name: "withenv-shares-environ", File: "config.go", Old: "ret.environ = append([][]byte(nil), c.environ...)", New: "ret.environ = c.environ", Rule: "R19.1", Substr: "WithEnv"},
			{Name: "instantiate-writes-config", File: "runtime.go", Old: "config = config.clone() // the caller's configuration must stay unchanged\n", New: "", Rule: "R19.2", Substr: "InstantiateModule"},
			{Name: "fsmount-write-before-clone", File: "fsconfig.go", Old: "ret := c.clone()\n\tif i, ok := ret.guestPathToFS[cleaned]; ok {", New: "ret := c.clone()\n\tif i, ok := c.guestPathToFS[cleaned]; ok {\n\t\tc.guestPaths[i] = guestPath\n\t}\n\tif i, ok := ret.guestPathToFS[cleaned]; ok {", Rule: "R19.1", Substr: "WithSysFSMount"},
			{Name: "sock-append-shared", File: "internal/sock/sock.go", Old: "ret := c.clone()\n", New: "ret := *c\n", Rule: "R19.1", Substr: "WithTCPListener"},
			{Name: "consumer-sorts-args", File: "internal/sys/sys.go", Old: "func (c *Context) Args() [][]byte {\n", New: "func (c *Context) Args() [][]byte {\n\tif len(c.args) > 1 {\n\t\tc.args[0], c.args[1] = c.args[1], c.args[0]\n\t}\n", Rule: "R19.2", Substr: "Args"},
		},
		Configs: []core.BuildCfg{{GOOS: "windows", GOARCH: "amd64"}, {GOOS: "darwin", GOARCH: "arm64"}},
	})
}

func configInterfaces(c *core.Ctx) []*types.Interface {
	var out []*types.Interface
	get := func(rel, name string) {
		p := c.Pkg(rel)
		if p == nil {
			return
		}
		if o := p.Types.Scope().Lookup(name); o != nil {
			if it, ok := o.Type().Underlying().(*types.Interface); ok {
				out = append(out, it)
			}
		}
	}
	get("", "RuntimeConfig")
	get("", "ModuleConfig")
	get("", "FSConfig")
	get("experimental/sock", "Config")
	return out
}

// configTypes returns the seed struct types (named).
func configTypes(c *core.Ctx) map[*types.Named]bool {
	ifaces := configInterfaces(c)
	seeds := map[*types.Named]bool{}
	for _, p := range c.WazeroPkgs() {
		sc := p.Types.Scope()
		for _, n := range sc.Names() {
			tn, ok := sc.Lookup(n).(*types.TypeName)
			if !ok || tn.IsAlias() {
				continue
			}
			named, ok := tn.Type().(*types.Named)
			if !ok {
				continue
			}
			if _, ok := named.Underlying().(*types.Struct); !ok {
				continue
			}
			for _, it := range ifaces {
				if types.Implements(types.NewPointer(named), it) || types.Implements(named, it) {
					seeds[named] = true
				}
			}
		}
	}
	// closure over pointer fields to module structs
	for changed := true; changed; {
		changed = false
		for n := range seeds {
			st := n.Underlying().(*types.Struct)
			for i := 0; i < st.NumFields(); i++ {
				if pt, ok := st.Field(i).Type().Underlying().(*types.Pointer); ok {
					if fn := core.NamedOf(pt.Elem()); fn != nil && fn.Obj().Pkg() != nil && strings.HasPrefix(fn.Obj().Pkg().Path(), core.Module) {
						if _, ok := fn.Underlying().(*types.Struct); ok && !seeds[fn] {
							seeds[fn] = true
							changed = true
						}
					}
				}
			}
		}
	}
	return seeds
}

func runC19(c *core.Ctx) {
	seeds := configTypes(c)
	var seedNames []string
	for n := range seeds {
		seedNames = append(seedNames, n.String())
		c.Discharge("R19.0", "config-type:"+n.String(), n.Obj().Pos(), "configuration struct type")
	}
	sort.Strings(seedNames)
	if len(seeds) < 4 {
		c.Undecided("R19.0", "config-types", 0, fmt.Sprintf("only %d configuration struct types found: %v", len(seeds), seedNames))
		return
	}
	checkNoCallerOwnedContainers(c, seeds)
	// With… methods: methods of the config interfaces that return the interface
	withMethods := map[string]bool{} // full name of concrete method
	for n := range seeds {
		ms := types.NewMethodSet(types.NewPointer(n))
		for i := 0; i < ms.Len(); i++ {
			fn := ms.At(i).Obj().(*types.Func)
			if strings.HasPrefix(fn.Name(), "With") && fn.Exported() {
				withMethods[core.ShortFuncName(fn)] = true
			}
		}
	}

	agg, keys, owned, al := ownedWriteAnalysis(c, seeds)
	c.Count("functions_analysed", len(al.Fns))
	c.Count("write_sites_enumerated", len(al.Writes))
	c.Count("tainted_roots", len(al.Tainted))
	c.Count("owned_write_sites", owned)
	for _, k := range keys {
		g := agg[k]
		rule := "R19.2"
		if isConfigFunc(g.fn, seeds, withMethods) {
			rule = "R19.1"
		}
		if len(g.bad) == 0 {
			c.Discharge(rule, k, g.fn.Pos(), fmt.Sprintf("%d write site(s) on configuration-owned memory, all on fresh unpublished memory", g.sites))
		} else {
			c.Violate(rule, k, g.pos[0].Pos, strings.Join(g.bad, "; "))
		}
	}
	// every With… method is an obligation even when it has no write-through site (pure field replacement is a field-store, so it will have one)
	for name := range withMethods {
		if agg[name] == nil {
			c.Discharge("R19.1", name, 0, "no write to configuration-owned memory at all (delegates to another With… method)")
		}
	}
	c.Discharge("R19.2", "all-other-functions", 0, fmt.Sprintf("%d functions, %d write-through instructions enumerated; %d may touch configuration-owned memory and are listed individually", len(al.Fns), len(al.Writes), owned))

	// R19.4 reflect/unsafe in the defining packages
	pkgs := map[string]bool{}
	for n := range seeds {
		pkgs[n.Obj().Pkg().Path()] = true
	}
	for path := range pkgs {
		p := c.All[path]
		bad := ""
		for imp := range p.Imports {
			if imp == "unsafe" || imp == "reflect" {
				bad += imp + " "
			}
		}
		// reflect is imported by the root package for host function signatures; what matters is that no
		// reflect/unsafe value is built from a configuration struct.
		viol := reflectOnSeeds(c, path, seeds)
		if viol != "" {
			c.Violate("R19.4", "pkg:"+core.Rel(path), 0, viol)
		} else {
			c.Discharge("R19.4", "pkg:"+core.Rel(path), 0, "no reflect.ValueOf/unsafe.Pointer applied to a configuration value (imports: "+strings.TrimSpace(bad)+")")
		}
	}
}

func isRefContainer(t types.Type) bool {
	switch t.Underlying().(type) {
	case *types.Slice, *types.Map, *types.Pointer:
		return true
	}
	return false
}

// isConfigFunc: a With… method, a constructor or clone helper declared on/for a configuration type.
func isConfigFunc(fn *ssa.Function, seeds map[*types.Named]bool, with map[string]bool) bool {
	for fn.Parent() != nil {
		fn = fn.Parent()
	}
	if fn.Signature.Recv() != nil {
		if n := core.NamedOf(fn.Signature.Recv().Type()); n != nil && seeds[n] {
			return strings.HasPrefix(fn.Name(), "With") || fn.Name() == "clone"
		}
		return false
	}
	// constructors: package-level functions returning a configuration interface/struct, and package init
	if fn.Name() == "init" {
		return true
	}
	res := fn.Signature.Results()
	if res.Len() == 1 && strings.HasPrefix(fn.Name(), "New") {
		return true
	}
	return false
}

func reflectOnSeeds(c *core.Ctx, path string, seeds map[*types.Named]bool) string {
	sp := c.SSA().Package(c.All[path].Types)
	if sp == nil {
		return ""
	}
	var out []string
	for fn := range c.AllFunctions() {
		if fn.Package() != sp && (fn.Parent() == nil || fn.Parent().Package() != sp) {
			continue
		}
		for _, b := range fn.Blocks {
			for _, in := range b.Instrs {
				switch x := in.(type) {
				case *ssa.Convert:
					if b, ok := x.Type().Underlying().(*types.Basic); ok && b.Kind() == types.UnsafePointer {
						if n := core.NamedOf(x.X.Type()); n != nil && seeds[n] {
							out = append(out, "unsafe.Pointer of configuration at "+c.Pos(x.Pos()))
						}
					}
				case *ssa.Call:
					if f := x.Common().StaticCallee(); f != nil && f.Pkg != nil && f.Pkg.Pkg.Path() == "reflect" {
						for _, a := range x.Common().Args {
							if mi, ok := a.(*ssa.MakeInterface); ok {
								if n := core.NamedOf(mi.X.Type()); n != nil && seeds[n] {
									out = append(out, "reflect."+f.Name()+" of configuration at "+c.Pos(x.Pos()))
								}
							}
						}
					}
				}
			}
		}
	}
	return strings.Join(out, "; ")
}

type fnAgg struct {
	fn    *ssa.Function
	sites int
	bad   []string
	pos   []core.WriteSite
}

// ownedWriteAnalysis enumerates every write-through instruction of the module that may touch memory owned by
// the seed struct types and decides, per function, whether each one writes fresh unpublished memory.
func ownedWriteAnalysis(c *core.Ctx, seeds map[*types.Named]bool) (agg map[string]*fnAgg, keys []string, owned int, al *core.Alias) {
	isSeedT := func(t types.Type) bool {
		n, ok := types.Unalias(t).(*types.Named)
		return ok && seeds[n]
	}
	al = core.NewAlias(c)
	al.OwnedType = func(n *types.Named) bool { return seeds[n] }
	seedRoots := map[core.Root]string{}
	for n := range seeds {
		st := n.Underlying().(*types.Struct)
		for i := 0; i < st.NumFields(); i++ {
			ft := st.Field(i).Type().Underlying()
			switch u := ft.(type) {
			case *types.Slice:
				r := core.FieldRoot(n, i)
				seedRoots[r] = "configuration field " + n.Obj().Name() + "." + st.Field(i).Name()
				if isRefContainer(u.Elem()) {
					seedRoots[core.Elem(r)] = "elements of configuration field " + n.Obj().Name() + "." + st.Field(i).Name()
				}
			case *types.Map:
				r := core.FieldRoot(n, i)
				seedRoots[r] = "configuration field " + n.Obj().Name() + "." + st.Field(i).Name()
				if isRefContainer(u.Elem()) {
					seedRoots[core.Elem(r)] = "elements of configuration field " + n.Obj().Name() + "." + st.Field(i).Name()
				}
			case *types.Pointer:
				if isSeedT(u.Elem()) {
					continue // owned by type
				}
				seedRoots[core.FieldRoot(n, i)] = "configuration field " + n.Obj().Name() + "." + st.Field(i).Name()
			}
		}
	}
	al.Propagate(seedRoots)

	fresh := core.NewFresh(isSeedT)

	agg = map[string]*fnAgg{}
	for _, w := range al.Writes {
		root, ok := al.MayAliasOwned(w.Base)
		if !ok {
			continue
		}
		// a store to a local variable cell is not a write through a reference
		if w.Kind == "ptr-store" {
			if a, isAlloc := w.Base.(*ssa.Alloc); isAlloc && !strings.HasPrefix(string(root), "type:") {
				_ = a
				continue
			}
		}
		owned++
		name := core.SSAFuncName(w.Fn)
		g := agg[name]
		if g == nil {
			g = &fnAgg{fn: w.Fn}
			agg[name] = g
			keys = append(keys, name)
		}
		g.sites++
		fr := fresh.Analyze(w.Fn)
		ok2 := false
		switch w.Kind {
		case "field-store", "ptr-store":
			// writing a field of / through a pointer to an owned object: the object must be fresh & unpublished
			ok2 = fr.TrackedAt(w.Base, w.Instr) || (!strings.HasPrefix(string(root), "type:") && fr.IsFreshAt(w.Base, w.Instr))
		default:
			ok2 = fr.IsFreshAt(w.Base, w.Instr)
		}
		if !ok2 {
			// the write is in an unexported step of a constructor (ret.appendMount(…)): it is as good as inline when every
			// call of the step passes an object that is fresh and unpublished in the caller, with the written field's
			// container fresh as well
			ok2 = writeThroughFreshArgument(c, fresh, w)
		}
		if !ok2 {
			what := w.Kind
			if w.Field != nil {
				what += " ." + w.Field.Name()
			}
			why := string(root)
			if !strings.HasPrefix(why, "type:") {
				why = al.Why(root)
			}
			g.bad = append(g.bad, fmt.Sprintf("%s at %s writes memory that is not fresh in this activation (may alias %s)", what, c.Pos(w.Pos), why))
			g.pos = append(g.pos, w)
		}
	}
	sort.Strings(keys)
	return
}

// writeThroughFreshArgument: w writes through a parameter of an unexported function whose every call site (all static, at
// least one) passes a tracked fresh object; for writes into a container held in a field, that field's referent is fresh too.
func writeThroughFreshArgument(c *core.Ctx, fresh *core.Fresh, w core.WriteSite) bool {
	fn := w.Fn
	if fn == nil || fn.Parent() != nil || fn.Object() == nil || fn.Object().Exported() {
		return false
	}
	// the parameter the written memory is reached from, and the field of it that holds the container (-1: the object itself)
	var param *ssa.Parameter
	field := -1
	v := w.Base
	for d := 0; d < 8 && v != nil; d++ {
		switch x := v.(type) {
		case *ssa.Parameter:
			param = x
			v = nil
		case *ssa.FieldAddr:
			if _, ok := x.X.(*ssa.Parameter); ok {
				field = x.Field
			}
			v = x.X
		case *ssa.IndexAddr:
			v = x.X
		case *ssa.UnOp:
			v = x.X
		case *ssa.Slice:
			v = x.X
		default:
			v = nil
		}
	}
	if param == nil {
		return false
	}
	idx := -1
	for i, q := range fn.Params {
		if q == param {
			idx = i
		}
	}
	if idx < 0 {
		return false
	}
	if w.Kind == "field-store" {
		field = -1 // assigning the field itself needs only the object to be fresh
	}
	sites := 0
	for caller := range c.AllFunctions() {
		if caller.Blocks == nil {
			continue
		}
		for _, b := range caller.Blocks {
			for _, in := range b.Instrs {
				// any other use of the function (a method value, a go/defer) is not followed
				for _, op := range in.Operands(nil) {
					if *op == ssa.Value(fn) {
						if call, ok := in.(*ssa.Call); !ok || call.Common().Value != ssa.Value(fn) {
							return false
						}
					}
				}
				call, ok := in.(*ssa.Call)
				if !ok || call.Common().StaticCallee() != fn {
					continue
				}
				sites++
				if idx >= len(call.Common().Args) {
					return false
				}
				bits, tracked := fresh.Analyze(caller).FieldsFreshAt(call.Common().Args[idx], call)
				if !tracked {
					return false
				}
				if field >= 0 && bits&(1<<uint(field)) == 0 {
					return false
				}
			}
		}
	}
	return sites > 0
}

// checkNoCallerOwnedContainers (R19.5): a method of a configuration type stores no slice or map PARAMETER into a
// configuration field. Such a parameter is the caller's memory (f(names...) passes the caller's slice), so the configuration
// would follow the caller's later writes, and two configurations derived from append(common, x)... would share a backing array.
func checkNoCallerOwnedContainers(c *core.Ctx, seeds map[*types.Named]bool) {
	c.SSA()
	n := 0
	for fn := range c.AllFunctions() {
		if !core.InModule(fn) || fn.Blocks == nil || fn.Signature.Recv() == nil {
			continue
		}
		rn := core.NamedOf(fn.Signature.Recv().Type())
		if rn == nil || !seeds[rn] {
			continue
		}
		for _, b := range fn.Blocks {
			for _, in := range b.Instrs {
				st, ok := in.(*ssa.Store)
				if !ok {
					continue
				}
				fa, ok := st.Addr.(*ssa.FieldAddr)
				if !ok {
					continue
				}
				owner := core.NamedOf(fa.X.Type())
				if owner == nil || !seeds[owner] {
					continue
				}
				switch st.Val.Type().Underlying().(type) {
				case *types.Slice, *types.Map:
				default:
					continue
				}
				n++
				// does the stored value come straight from a parameter (possibly re-sliced)?
				v := st.Val
				for d := 0; d < 4; d++ {
					if sl, ok := v.(*ssa.Slice); ok {
						v = sl.X
						continue
					}
					if cv, ok := v.(*ssa.ChangeType); ok {
						v = cv.X
						continue
					}
					break
				}
				par, isParam := v.(*ssa.Parameter)
				fname := owner.Obj().Name() + "." + owner.Underlying().(*types.Struct).Field(fa.Field).Name()
				if isParam && (len(fn.Params) == 0 || par != fn.Params[0]) {
					c.Violate("R19.5", core.SSAFuncName(fn)+" stores a copy of its "+par.Type().String()+" parameter in "+fname, st.Pos(),
						"the parameter `"+par.Name()+"` itself is stored: called as f(s...) (or with a map) it is the caller's memory, so the configuration and everything derived from it follow the caller's later writes, and configurations derived with append(common, x)... share a backing array – deriving one changes the other")
				} else {
					c.Discharge("R19.5", core.SSAFuncName(fn)+" stores no caller-owned container in "+fname, st.Pos(), "the stored value is built in the method (copy, conversion, literal)")
				}
			}
		}
	}
	if n == 0 {
		c.Undecided("R19.5", "container stores of the configuration methods", 0, "none found")
	}
}
