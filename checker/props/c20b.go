package props

import (
	"fmt"
	"go/ast"
	"go/token"
	"go/types"
	"strings"

	"golang.org/x/tools/go/ssa"

	"verif/checker/core"
)

// ---- R20.9 – R20.10 (defects found by the bug hunt of the last session) ----

// checkHostListenerSlices (R20.9): where the Go side brackets a host function with its listener, the slot slice (sized
// max(#params,#results)) is cut to the parameters for Before and to the results for After.
func checkHostListenerSlices(c *core.Ctx) {
	n := 0
	for _, e := range []struct{ name, rel string }{{"compiler", wzv}, {"interpreter", "internal/engine/interpreter"}} {
		p := c.Pkg(e.rel)
		if p == nil {
			continue
		}
		info := p.TypesInfo
		isHostCall := func(call *ast.CallExpr) bool {
			if isHost, _ := hostBodyCall(info, call); isHost {
				return true
			}
			se, ok := call.Fun.(*ast.SelectorExpr)
			if !ok || se.Sel.Name != "Call" {
				return false
			}
			rt := info.Types[se.X].Type
			return rt != nil && (strings.HasSuffix(rt.String(), "api.GoFunction") || strings.HasSuffix(rt.String(), "api.GoModuleFunction"))
		}
		// the smallest enclosing unit (case clause, or function body) that contains both a host call and listener calls
		units := []ast.Node{}
		core.AllFuncDecls(p, func(fd *ast.FuncDecl) {
			hasClauses := false
			ast.Inspect(fd.Body, func(x ast.Node) bool {
				if cc, ok := x.(*ast.CaseClause); ok {
					host, lsn := false, false
					ast.Inspect(cc, func(y ast.Node) bool {
						if call, ok := y.(*ast.CallExpr); ok {
							if isHostCall(call) {
								host = true
							}
							if se, ok := call.Fun.(*ast.SelectorExpr); ok && se.Sel.Name == "Before" {
								lsn = true
							}
						}
						return true
					})
					if host && lsn {
						hasClauses = true
						units = append(units, cc)
						return false
					}
				}
				return true
			})
			if hasClauses {
				return
			}
			host, lsn := false, false
			ast.Inspect(fd.Body, func(y ast.Node) bool {
				if call, ok := y.(*ast.CallExpr); ok {
					if isHostCall(call) {
						host = true
					}
					if se, ok := call.Fun.(*ast.SelectorExpr); ok && se.Sel.Name == "Before" {
						if rt := info.Types[se.X].Type; rt != nil && strings.Contains(rt.String(), "FunctionListener") {
							lsn = true
						}
					}
				}
				return true
			})
			if host && lsn {
				units = append(units, fd)
			}
		})
		for _, u := range units {
			// local slices defined as a prefix: `params := stack[:typ.ParamNumInUint64]`
			prefixOf := map[types.Object]string{}
			boundKind := func(ex ast.Expr) string {
				k := ""
				ast.Inspect(ex, func(y ast.Node) bool {
					if id, ok := y.(*ast.Ident); ok {
						switch nm := strings.ToLower(id.Name); {
						case strings.Contains(nm, "param"):
							k = "params"
						case strings.Contains(nm, "result"):
							k = "results"
						}
					}
					return true
				})
				return k
			}
			kindOf := func(ex ast.Expr) string {
				ex = ast.Unparen(ex)
				if id, ok := ex.(*ast.Ident); ok {
					if o := info.Uses[id]; o != nil {
						return prefixOf[o]
					}
				}
				if sl, ok := ex.(*ast.SliceExpr); ok && sl.High != nil {
					return boundKind(sl.High)
				}
				return ""
			}
			ast.Inspect(u, func(y ast.Node) bool {
				if as, ok := y.(*ast.AssignStmt); ok && len(as.Lhs) == 1 && len(as.Rhs) == 1 {
					if id, ok := as.Lhs[0].(*ast.Ident); ok {
						if sl, ok := ast.Unparen(as.Rhs[0]).(*ast.SliceExpr); ok && sl.High != nil {
							o := info.Defs[id]
							if o == nil {
								o = info.Uses[id]
							}
							if o != nil {
								prefixOf[o] = boundKind(sl.High)
							}
						}
					}
				}
				return true
			})
			label := ""
			if cc, ok := u.(*ast.CaseClause); ok && len(cc.List) > 0 {
				label = "arm " + constNameOf(info, cc.List[0])
			} else if fd, ok := u.(*ast.FuncDecl); ok {
				label = fd.Name.Name
			}
			ast.Inspect(u, func(y ast.Node) bool {
				call, ok := y.(*ast.CallExpr)
				if !ok {
					return true
				}
				se, ok := call.Fun.(*ast.SelectorExpr)
				if !ok || (se.Sel.Name != "Before" && se.Sel.Name != "After") || len(call.Args) < 4 {
					return true
				}
				if rt := info.Types[se.X].Type; rt == nil || !strings.Contains(rt.String(), "FunctionListener") {
					return true
				}
				want := map[string]string{"Before": "params", "After": "results"}[se.Sel.Name]
				n++
				got := kindOf(call.Args[3])
				c.Check(got == want, "R20.9", e.name+" "+label+": host function listener "+se.Sel.Name+" receives exactly the "+want, call.Pos(),
					"`"+core.ExprStr(call.Args[3])+"` is cut to the number of "+want,
					"`"+core.ExprStr(call.Args[3])+"` is not cut to the number of "+want+": the slot slice of a host call has max(#params,#results) entries, so Before shows stale slots as extra parameters / After shows left-over parameters behind the results")
				return true
			})
		}
	}
	c.Count("host_listener_slices", n)
	if n == 0 {
		c.Undecided("R20.9", "host function listener brackets", 0, "none found")
	}
}

// checkStackOverflowAbort (R20.10): a call that ends in stack overflow still completes every Before with an Abort.
// compiler: the overflow is reported by a plain return, so the deferred function's branch for that error must walk the stack
// and call Abort; interpreter: Abort goes to the functions that have a frame, so no Before may be called by a function
// that has not passed the ceiling check yet.
func checkStackOverflowAbort(c *core.Ctx) {
	// (a) compiler
	if p := c.Pkg(wzv); p != nil {
		info := p.TypesInfo
		found := false
		core.AllFuncDecls(p, func(fd *ast.FuncDecl) {
			ast.Inspect(fd.Body, func(x ast.Node) bool {
				is, ok := x.(*ast.IfStmt)
				if !ok {
					return true
				}
				be, ok := ast.Unparen(is.Cond).(*ast.BinaryExpr)
				if !ok || (be.Op != token.NEQ && be.Op != token.EQL) {
					return true
				}
				mentions := false
				for _, side := range []ast.Expr{be.X, be.Y} {
					if se, ok := side.(*ast.SelectorExpr); ok {
						if o, ok := info.Uses[se.Sel].(*types.Var); ok && o.Name() == "ErrRuntimeStackOverflow" {
							mentions = true
						}
					}
				}
				if !mentions {
					return true
				}
				// only inside a deferred function literal (the call's exit path)
				var branch ast.Node = is.Body
				if be.Op == token.NEQ {
					branch = is.Else
				}
				if !insideDefer(fd, is) {
					return true
				}
				found = true
				aborts, inLoop, unwinds := false, false, false
				var scan func(n ast.Node, depth int)
				scan = func(branch ast.Node, depth int) {
					var stack []ast.Node
					ast.Inspect(branch, func(y ast.Node) bool {
						if y == nil {
							stack = stack[:len(stack)-1]
							return true
						}
						stack = append(stack, y)
						if call, ok := y.(*ast.CallExpr); ok {
							if se, ok := call.Fun.(*ast.SelectorExpr); ok && se.Sel.Name == "Abort" {
								aborts = true
								for _, s := range stack {
									switch s.(type) {
									case *ast.RangeStmt, *ast.ForStmt:
										inLoop = true
									}
								}
							}
							if id, ok := call.Fun.(*ast.Ident); ok && strings.Contains(strings.ToLower(id.Name), "unwindstack") {
								unwinds = true
							}
							// a helper of the same package called from the branch
							if f := core.Callee(info, call); f != nil && depth < 2 {
								core.AllFuncDecls(p, func(g *ast.FuncDecl) {
									if info.Defs[g.Name] == types.Object(f) && g != fd {
										scan(g.Body, depth+1)
									}
								})
							}
						}
						return true
					})
				}
				if branch != nil {
					scan(branch, 0)
				}
				c.Check(aborts && inLoop && unwinds, "R20.10", "compiler: the exit path of a call that ended in stack overflow walks the stack and calls Abort", is.Pos(),
					"the stack-overflow branch of the deferred function unwinds the stack and calls Abort in a loop",
					"the stack-overflow branch of the deferred function in "+fd.Name.Name+" does not unwind the stack and call Abort: the overflow is reported by a plain return (no panic), so every function on the stack got Before and never After nor Abort")
				return true
			})
		})
		if !found {
			c.Undecided("R20.10", "compiler: stack-overflow branch of the call's deferred function", 0, "not found")
		}
	}
	// (b) interpreter
	if p := c.Pkg("internal/engine/interpreter"); p != nil {
		info := p.TypesInfo
		n := 0
		// functions that consult the ceiling themselves (a predicate such as callStackCeilingReached, or a checker)
		consults := map[string]bool{}
		core.AllFuncDecls(p, func(g *ast.FuncDecl) {
			ast.Inspect(g.Body, func(x ast.Node) bool {
				if id, ok := x.(*ast.Ident); ok {
					if o, ok := info.Uses[id].(*types.Var); ok && o.Name() == "callStackCeiling" && len(g.Body.List) <= 6 {
						consults[g.Name.Name] = true
					}
				}
				return true
			})
		})
		core.AllFuncDecls(p, func(fd *ast.FuncDecl) {
			var befores []*ast.CallExpr
			var guards []token.Pos
			ast.Inspect(fd.Body, func(x ast.Node) bool {
				switch y := x.(type) {
				case *ast.CallExpr:
					if se, ok := y.Fun.(*ast.SelectorExpr); ok {
						if se.Sel.Name == "Before" {
							if rt := info.Types[se.X].Type; rt != nil && strings.Contains(rt.String(), "FunctionListener") {
								befores = append(befores, y)
							}
						}
						if se.Sel.Name == "pushFrame" || interpCeilingCheckers(p)[se.Sel.Name] || consults[se.Sel.Name] {
							guards = append(guards, y.Pos())
						}
					}
				case *ast.Ident:
					if o, ok := info.Uses[y].(*types.Var); ok && o.Name() == "callStackCeiling" {
						guards = append(guards, y.Pos())
					}
				}
				return true
			})
			for _, b := range befores {
				n++
				ok := false
				for _, g := range guards {
					if g < b.Pos() {
						ok = true
					}
				}
				c.Check(ok, "R20.10", "interpreter "+fd.Name.Name+": the call-stack ceiling is checked before the listener's Before", b.Pos(),
					"the ceiling check (or the frame push that performs it) precedes Before",
					"Before is called before the ceiling check of the frame push: the function that hits the ceiling got Before but has no frame, and Abort is only delivered to functions with a frame")
			}
		})
		c.Count("interpreter_before_calls", n)
		if n == 0 {
			c.Undecided("R20.10", "interpreter Before calls", 0, "none found")
		}
	}
	// (c) the uncapped unwinders stay uncapped: UnwindStack passes "no limit" to the bounded variant
	for _, rel := range []string{"internal/engine/wazevo/backend/isa/amd64", "internal/engine/wazevo/backend/isa/arm64"} {
		for _, fn := range moduleFns(c, rel) {
			if fn.Name() != "UnwindStack" || fn.Parent() != nil {
				continue
			}
			for _, b := range fn.Blocks {
				for _, in := range b.Instrs {
					call, ok := in.(*ssa.Call)
					if !ok {
						continue
					}
					sc := call.Common().StaticCallee()
					if sc == nil || !strings.HasPrefix(sc.Name(), "UnwindStack") || sc == fn {
						continue
					}
					args := call.Common().Args
					k, isK := args[len(args)-1].(*ssa.Const)
					c.Check(isK && k.Value != nil && k.Int64() == 0, "R20.3", core.Rel(rel)+" UnwindStack passes no frame limit to "+sc.Name(), call.Pos(),
						"limit 0 (none)", "UnwindStack passes a frame limit: the recover path's walk is cut, frames beyond it get no Abort")
				}
			}
		}
	}
}

func insideDefer(fd *ast.FuncDecl, target ast.Node) bool {
	in := false
	ast.Inspect(fd.Body, func(x ast.Node) bool {
		if ds, ok := x.(*ast.DeferStmt); ok {
			if ds.Pos() <= target.Pos() && target.End() <= ds.End() {
				in = true
			}
		}
		return true
	})
	return in
}

// checkAfterReceivesTopOfStack (R20.11): where the frontend emits the call of the after-listener trampoline, the values it
// passes are the TOP entries of the operand stack (the results of the function), not the bottom ones: a `return` or a branch
// to the function label may leave extra operands below the results.
func checkAfterReceivesTopOfStack(c *core.Ctx) {
	p := c.Pkg("internal/engine/wazevo/frontend")
	if p == nil {
		return
	}
	info := p.TypesInfo
	n := 0
	core.AllFuncDecls(p, func(fd *ast.FuncDecl) {
		// semantic anchor: the function that loads the after-listener trampoline table
		loadsAfter := false
		ast.Inspect(fd.Body, func(x ast.Node) bool {
			if se, ok := x.(*ast.SelectorExpr); ok && strings.Contains(se.Sel.Name, "AfterListenerTrampolines") {
				loadsAfter = true
			}
			return true
		})
		if !loadsAfter {
			return
		}
		ast.Inspect(fd.Body, func(x ast.Node) bool {
			sl, ok := x.(*ast.SliceExpr)
			if !ok {
				return true
			}
			// a slice of the operand-stack values
			t := info.Types[sl.X].Type
			if t == nil || !strings.Contains(t.String(), "ssa.Value") {
				return true
			}
			if !strings.Contains(core.ExprStr(sl.X), "values") {
				return true
			}
			n++
			// top-of-stack forms: values[tail-n:tail], values[len(values)-n:], values[tail-n:]
			topForm := sl.Low != nil
			if sl.Low != nil {
				if be, ok := ast.Unparen(sl.Low).(*ast.BinaryExpr); !ok || be.Op != token.SUB {
					// a local bound to such a difference is accepted too
					if id, isId := ast.Unparen(sl.Low).(*ast.Ident); isId {
						bound := false
						ast.Inspect(fd.Body, func(y ast.Node) bool {
							if as, ok := y.(*ast.AssignStmt); ok && len(as.Lhs) == 1 && len(as.Rhs) == 1 {
								if lid, ok := as.Lhs[0].(*ast.Ident); ok && info.Defs[lid] != nil && info.Defs[lid] == info.Uses[id] {
									if be, ok := ast.Unparen(as.Rhs[0]).(*ast.BinaryExpr); ok && be.Op == token.SUB {
										bound = true
									}
								}
							}
							return true
						})
						topForm = bound
					} else {
						topForm = false
					}
				}
			}
			c.Check(topForm, "R20.11", "frontend "+fd.Name.Name+": the after-listener receives the top of the operand stack", sl.Pos(),
				"`"+core.ExprStr(sl)+"` counts from the top of the stack",
				"`"+core.ExprStr(sl)+"` takes the values from the bottom of the operand stack: when the function returns with extra operands below its results (return / br to the function label), After carries values which are not the results")
			return true
		})
	})
	if n == 0 {
		c.Undecided("R20.11", "values passed to the after-listener trampoline", 0, "not found")
	}
}

// checkAbortCollectionUnconditional (R20.12): in the recover paths, whether a frame's listener is collected for Abort depends
// on that listener alone. A frame's listener belongs to the module that defines the function; a condition on the entry
// module (or anything else) drops Aborts of other modules' frames.
func checkAbortCollectionUnconditional(c *core.Ctx) {
	n := 0
	for _, e := range []struct{ name, rel string }{{"compiler", wzv}, {"interpreter", "internal/engine/interpreter"}} {
		p := c.Pkg(e.rel)
		if p == nil {
			continue
		}
		info := p.TypesInfo
		core.AllFuncDecls(p, func(fd *ast.FuncDecl) {
			hasAbort, hasRecover := false, false
			ast.Inspect(fd.Body, func(x ast.Node) bool {
				if call, ok := x.(*ast.CallExpr); ok {
					if se, ok := call.Fun.(*ast.SelectorExpr); ok && se.Sel.Name == "Abort" {
						hasAbort = true
					}
					if core.IsBuiltin(info, call, "recover") {
						hasRecover = true
					}
					if se, ok := call.Fun.(*ast.SelectorExpr); ok && se.Sel.Name == "FromRecovered" {
						hasRecover = true
					}
				}
				return true
			})
			if !hasAbort || !hasRecover {
				return
			}
			// appends that collect listeners: append(x, …) where the appended element mentions a FunctionListener value
			var walk func(n ast.Node, conds []ast.Expr)
			walk = func(nd ast.Node, conds []ast.Expr) {
				switch y := nd.(type) {
				case nil:
					return
				case *ast.IfStmt:
					walk(y.Body, append(append([]ast.Expr{}, conds...), y.Cond))
					if y.Else != nil {
						walk(y.Else, conds)
					}
					return
				case *ast.CallExpr:
					if core.IsBuiltin(info, y, "append") && len(y.Args) >= 2 {
						isListener := false
						var lsnIdent types.Object
						ast.Inspect(y.Args[1], func(z ast.Node) bool {
							if id, ok := z.(*ast.Ident); ok {
								if o := info.Uses[id]; o != nil && o.Type() != nil && strings.Contains(o.Type().String(), "FunctionListener") {
									isListener = true
									lsnIdent = o
								}
							}
							if se, ok := z.(*ast.SelectorExpr); ok {
								if t := info.Types[se].Type; t != nil && strings.Contains(t.String(), "FunctionListener") {
									isListener = true
								}
							}
							return true
						})
						if isListener {
							n++
							extra := ""
							for _, cond := range conds {
								ast.Inspect(cond, func(z ast.Node) bool {
									id, ok := z.(*ast.Ident)
									if !ok || id.Name == "nil" {
										return true
									}
									o := info.Uses[id]
									if o == nil {
										return true
									}
									if _, isVar := o.(*types.Var); !isVar {
										return true
									}
									// allowed: the listener itself, or a value it was selected from (f, frame, parent …) – anything whose
									// type mentions the listener or the function it belongs to
									ts := o.Type().String()
									if _, isIface := o.Type().Underlying().(*types.Interface); isIface && !strings.Contains(ts, "FunctionListener") {
										return true // the recovered value / an error: which kind of failure, not which frame
									}
									if o == lsnIdent || strings.Contains(ts, "FunctionListener") || strings.Contains(ts, "function") || strings.Contains(ts, "compiledFunction") || strings.Contains(ts, "callFrame") {
										return true
									}
									extra = id.Name
									return true
								})
							}
							c.Check(extra == "", "R20.12", e.name+" "+fd.Name.Name+": collecting a frame's listener for Abort depends on that listener only (#"+fmt.Sprint(n)+")", y.Pos(),
								"the guard mentions only the listener (or the frame it comes from)",
								"the collection is also conditioned on `"+extra+"`: a frame's listener belongs to the module defining the function, so a condition on anything else (e.g. whether the entry module has listeners) leaves Before events of other modules' frames without After or Abort when the call unwinds")
						}
					}
				}
				var kids []ast.Node
				ast.Inspect(nd, func(x ast.Node) bool {
					if x == nd {
						return true
					}
					if x != nil {
						kids = append(kids, x)
					}
					return false
				})
				for _, k := range kids {
					walk(k, conds)
				}
			}
			walk(fd.Body, nil)
		})
	}
	if n == 0 {
		c.Undecided("R20.12", "listener collection in the recover paths", 0, "none found")
	}
}
