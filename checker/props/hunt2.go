package props

import (
	"fmt"
	"go/ast"
	"go/token"
	"go/types"
	"strings"

	"golang.org/x/tools/go/ssa"

	"verif/checker/core"
)

// Rules guarding the repairs of the second bug hunt (C12–C16, C20).

// checkPublishAfterComplete (R13.6): a compiled module is entered into the engine's in-memory map – where other goroutines
// and runtimes sharing the cache find it – only as the last step: nothing is written into it afterwards.
func checkPublishAfterComplete(c *core.Ctx) {
	p := c.Pkg(wzv)
	if p == nil {
		return
	}
	info := p.TypesInfo
	// the publisher: the function that stores into the compiledModules map
	publishers := map[string]bool{}
	core.AllFuncDecls(p, func(fd *ast.FuncDecl) {
		ast.Inspect(fd.Body, func(x ast.Node) bool {
			if as, ok := x.(*ast.AssignStmt); ok && len(as.Lhs) == 1 {
				if ix, ok := as.Lhs[0].(*ast.IndexExpr); ok {
					if se, ok := ix.X.(*ast.SelectorExpr); ok && se.Sel.Name == "compiledModules" {
						publishers[fd.Name.Name] = true
					}
				}
			}
			return true
		})
	})
	// one level of wrappers (addCompiledModule → addCompiledModuleToMemory)
	core.AllFuncDecls(p, func(fd *ast.FuncDecl) {
		if publishers[fd.Name.Name] {
			return
		}
		ast.Inspect(fd.Body, func(x ast.Node) bool {
			if call, ok := x.(*ast.CallExpr); ok {
				if f := core.Callee(info, call); f != nil && publishers[f.Name()] && len(fd.Type.Params.List) > 0 {
					// a wrapper passes its own parameter on
					for _, a := range call.Args {
						if id, ok := a.(*ast.Ident); ok {
							if _, isParam := info.Uses[id].(*types.Var); isParam && strings.Contains(fmt.Sprint(info.Uses[id].Type()), "compiledModule") {
								for _, fl := range fd.Type.Params.List {
									for _, nm := range fl.Names {
										if info.Defs[nm] == info.Uses[id] {
											publishers[fd.Name.Name+"#wrapper"] = true
										}
									}
								}
							}
						}
					}
				}
			}
			return true
		})
	})
	n := 0
	core.AllFuncDecls(p, func(fd *ast.FuncDecl) {
		if publishers[fd.Name.Name] {
			return
		}
		for _, l := range blocksOf(fd.Body) {
			for i, st := range l.List {
				var pub *ast.CallExpr
				switch st.(type) {
				case *ast.IfStmt, *ast.ExprStmt, *ast.AssignStmt:
				default:
					continue
				}
				// only the statement's own header (an if's init/cond), not nested blocks
				hdr := ast.Node(st)
				if is, ok := st.(*ast.IfStmt); ok {
					hdr = is.Init
					if hdr == nil {
						hdr = is.Cond
					}
				}
				if hdr == nil {
					continue
				}
				ast.Inspect(hdr, func(x ast.Node) bool {
					if call, ok := x.(*ast.CallExpr); ok {
						if f := core.Callee(info, call); f != nil && (publishers[f.Name()] || publishers[f.Name()+"#wrapper"]) {
							pub = call
						}
					}
					return true
				})
				if pub == nil {
					continue
				}
				// the published variable
				var obj types.Object
				for _, a := range pub.Args {
					if id, ok := a.(*ast.Ident); ok {
						if o := info.Uses[id]; o != nil && strings.Contains(o.Type().String(), "compiledModule") {
							obj = o
						}
					}
				}
				if obj == nil {
					continue
				}
				n++
				var later []string
				for _, after := range l.List[i+1:] {
					ast.Inspect(after, func(x ast.Node) bool {
						switch y := x.(type) {
						case *ast.AssignStmt:
							for _, lhs := range y.Lhs {
								if se, ok := lhs.(*ast.SelectorExpr); ok {
									if id, ok := se.X.(*ast.Ident); ok && info.Uses[id] == obj {
										later = append(later, "`"+core.ExprStr(lhs)+" = …` at "+c.Pos(y.Pos()))
									}
								}
							}
						case *ast.CallExpr:
							if se, ok := y.Fun.(*ast.SelectorExpr); ok {
								root := se.X
								for {
									if s2, ok := root.(*ast.SelectorExpr); ok {
										root = s2.X
										continue
									}
									break
								}
								if id, ok := root.(*ast.Ident); ok && info.Uses[id] == obj && root != se.X {
									// a method on a part of the module (cm.executables.compileEntryPreambles): builds that part
									later = append(later, "`"+core.ExprStr(y.Fun)+"(…)` at "+c.Pos(y.Pos()))
								}
							}
						}
						return true
					})
				}
				c.Check(len(later) == 0, "R13.6", "the compiled module published in "+fd.Name.Name+" is complete", pub.Pos(),
					"nothing is written into it after the call",
					"after the module was entered into the in-memory map it is still being built ("+strings.Join(later, "; ")+"): another goroutine or runtime sharing the cache that compiles the same binary finds the half-built module (e.g. without entry preambles: index out of range when instantiating)")
			}
		}
	})
	if n == 0 {
		c.Undecided("R13.6", "publication of compiled modules", 0, "no call site found")
	}
}

// checkOneMemory (R14.8): imported and defined memories share one index space with at most one entry; the collector of the
// declarations refuses a second one, whatever section it comes from.
func checkOneMemory(c *core.Ctx) {
	p := c.Pkg("internal/wasm")
	if p == nil {
		return
	}
	info := p.TypesInfo
	found := false
	core.AllFuncDecls(p, func(fd *ast.FuncDecl) {
		// the collector: a function with a result of type *Memory that ranges over the import section
		if fd.Type.Results == nil {
			return
		}
		var memRes types.Object
		for _, f := range fd.Type.Results.List {
			for _, nm := range f.Names {
				if o := info.Defs[nm]; o != nil && strings.HasSuffix(o.Type().String(), "wasm.Memory") {
					memRes = o
				}
			}
		}
		if memRes == nil {
			return
		}
		ast.Inspect(fd.Body, func(x ast.Node) bool {
			cc, ok := x.(*ast.CaseClause)
			if !ok || len(cc.List) == 0 || constNameOf(info, cc.List[0]) != "ExternTypeMemory" {
				return true
			}
			found = true
			guarded := false
			var assignPos token.Pos
			for _, st := range cc.Body {
				if is, ok := st.(*ast.IfStmt); ok && assignPos == 0 {
					if be, ok := ast.Unparen(is.Cond).(*ast.BinaryExpr); ok && be.Op == token.NEQ {
						if id, ok := be.X.(*ast.Ident); ok && info.Uses[id] == memRes {
							// the branch leaves with an error
							ast.Inspect(is.Body, func(y ast.Node) bool {
								if _, ok := y.(*ast.ReturnStmt); ok {
									guarded = true
								}
								return true
							})
						}
					}
				}
				if as, ok := st.(*ast.AssignStmt); ok {
					for _, l := range as.Lhs {
						if id, ok := l.(*ast.Ident); ok && info.Uses[id] == memRes && assignPos == 0 {
							assignPos = as.Pos()
						}
					}
				}
			}
			c.Check(guarded, "R14.8", "a second memory import is refused in "+fd.Name.Name, cc.Pos(),
				"the memory import arm returns an error when a memory was already collected",
				"the memory import arm overwrites the memory collected before: a module with two memory imports validates, the last import wins here, and at instantiation the memory bound is whichever import is resolved last in map order – memory.size below the declared minimum and different from run to run")
			return true
		})
	})
	if !found {
		c.Undecided("R14.8", "collector of the memory declarations", 0, "not found")
	}
}

// checkNoSizeInEngineBounds (R14.9): the engines do not compare an address with MemoryInstance.Size(), a uint32 that is 0 for
// a memory of 65536 pages.
func checkNoSizeInEngineBounds(c *core.Ctx) {
	n := 0
	for _, rel := range []string{"internal/engine/interpreter", wzv} {
		p := c.Pkg(rel)
		if p == nil {
			continue
		}
		info := p.TypesInfo
		core.AllFuncDecls(p, func(fd *ast.FuncDecl) {
			ast.Inspect(fd.Body, func(x ast.Node) bool {
				be, ok := x.(*ast.BinaryExpr)
				if !ok {
					return true
				}
				switch be.Op {
				case token.LSS, token.LEQ, token.GTR, token.GEQ:
				default:
					return true
				}
				for _, side := range []ast.Expr{be.X, be.Y} {
					ast.Inspect(side, func(y ast.Node) bool {
						call, ok := y.(*ast.CallExpr)
						if !ok {
							return true
						}
						f := core.Callee(info, call)
						if f == nil || f.Name() != "Size" {
							return true
						}
						if sig, ok := f.Type().(*types.Signature); ok && sig.Recv() != nil && strings.HasSuffix(sig.Recv().Type().String(), "wasm.MemoryInstance") {
							n++
							c.Violate("R14.9", "bounds comparison with MemoryInstance.Size() in "+core.FuncName(p, fd), be.Pos(),
								"`"+core.ExprStr(be)+"` compares with Size(), which is uint32(len(Buffer)) = 0 for a memory of 65536 pages: every address is then out of bounds (memory.atomic.notify trapped at address 0 on a 4GiB memory)")
						}
						return true
					})
				}
				return true
			})
		})
	}
	c.Count("engine_comparisons_with_size", n)
	c.Discharge("R14.9", "the engines' bounds checks use the 64-bit buffer length", 0, "no comparison with MemoryInstance.Size() in the engines")
}

// checkWasiOutputsChecked (R15.8): a WASI function that cannot deliver an output to guest memory says so (EFAULT): the
// result of every api.Memory write in imports/wasi_snapshot_preview1 is consumed.
func checkWasiOutputsChecked(c *core.Ctx) {
	p := c.Pkg("imports/wasi_snapshot_preview1")
	if p == nil {
		return
	}
	info := p.TypesInfo
	n, bad := 0, 0
	core.AllFuncDecls(p, func(fd *ast.FuncDecl) {
		ast.Inspect(fd.Body, func(x ast.Node) bool {
			es, ok := x.(*ast.ExprStmt)
			var call *ast.CallExpr
			discarded := false
			if ok {
				call, _ = es.X.(*ast.CallExpr)
				discarded = true
			} else if as, ok := x.(*ast.AssignStmt); ok && len(as.Rhs) == 1 {
				allBlank := true
				for _, l := range as.Lhs {
					if id, ok := l.(*ast.Ident); !ok || id.Name != "_" {
						allBlank = false
					}
				}
				if allBlank {
					call, _ = as.Rhs[0].(*ast.CallExpr)
					discarded = true
				}
			}
			if call == nil || !discarded {
				return true
			}
			se, ok := call.Fun.(*ast.SelectorExpr)
			if !ok || !strings.HasPrefix(se.Sel.Name, "Write") {
				return true
			}
			if t := info.Types[se.X].Type; t == nil || !strings.HasSuffix(t.String(), "api.Memory") {
				return true
			}
			bad++
			c.Violate("R15.8", "result of `"+core.ExprStr(call.Fun)+"` in "+fd.Name.Name+" is checked", call.Pos(),
				"the result of writing an output to guest memory is dropped: with the output pointer outside memory the call still reports success, and whatever it did (e.g. sock_accept inserting a connection into the descriptor table) stays hidden from the guest")
			return true
		})
		ast.Inspect(fd.Body, func(x ast.Node) bool {
			if call, ok := x.(*ast.CallExpr); ok {
				if se, ok := call.Fun.(*ast.SelectorExpr); ok && strings.HasPrefix(se.Sel.Name, "Write") {
					if t := info.Types[se.X].Type; t != nil && strings.HasSuffix(t.String(), "api.Memory") {
						n++
					}
				}
			}
			return true
		})
	})
	c.Count("wasi_memory_writes", n)
	if n < 20 {
		c.Undecided("R15.8", "api.Memory writes of the WASI functions", 0, fmt.Sprintf("only %d found", n))
		return
	}
	if bad == 0 {
		c.Discharge("R15.8", "every output written to guest memory by a WASI function is checked", 0, fmt.Sprintf("%d writes, no result dropped", n))
	}
}

// checkDirentEOF (R16.7): the dirent cache takes only an EMPTY read for the end of the directory: a short count also happens
// when entries vanish while the host reads them.
func checkDirentEOF(c *core.Ctx) {
	p := c.Pkg("internal/sys")
	if p == nil {
		return
	}
	info := p.TypesInfo
	n := 0
	core.AllFuncDecls(p, func(fd *ast.FuncDecl) {
		ast.Inspect(fd.Body, func(x ast.Node) bool {
			as, ok := x.(*ast.AssignStmt)
			if !ok || len(as.Lhs) != 1 || len(as.Rhs) != 1 {
				return true
			}
			se, ok := as.Lhs[0].(*ast.SelectorExpr)
			if !ok || se.Sel.Name != "eof" {
				return true
			}
			if t := info.Types[se.X].Type; t == nil || !strings.Contains(t.String(), "DirentCache") {
				return true
			}
			n++
			rhs := ast.Unparen(as.Rhs[0])
			ok2 := false
			if id, isId := rhs.(*ast.Ident); isId && (id.Name == "true" || id.Name == "false") {
				ok2 = true
			}
			if be, isB := rhs.(*ast.BinaryExpr); isB && be.Op == token.EQL {
				if v, isK := core.ConstVal(info, be.Y); isK && v == 0 {
					ok2 = true
				}
			}
			c.Check(ok2, "R16.7", fmt.Sprintf("end of directory #%d in %s is derived from an empty read only", n, fd.Name.Name), as.Pos(),
				"`"+core.ExprStr(as.Rhs[0])+"`",
				"`d.eof = "+core.ExprStr(as.Rhs[0])+"`: a read that returns fewer entries than asked for is taken for the end, but Readdir also returns fewer when an entry vanished between getdents and lstat – unlinking one file during the iteration drops the rest of the directory")
			return true
		})
	})
	if n == 0 {
		c.Undecided("R16.7", "assignments of DirentCache.eof", 0, "none found")
	}
}

// checkListenerAdapterState (R20.13): a FunctionListener is created once per function and serves all its calls, on any
// goroutine: per-call state must not live in the listener object. The multi-listener adapter's replayable iterator is per call.
func checkListenerAdapterState(c *core.Ctx) {
	p := c.Pkg("experimental")
	if p == nil {
		return
	}
	info := p.TypesInfo
	n := 0
	core.AllFuncDecls(p, func(fd *ast.FuncDecl) {
		if fd.Recv == nil || (fd.Name.Name != "Before" && fd.Name.Name != "After" && fd.Name.Name != "Abort") {
			return
		}
		var recv types.Object
		if len(fd.Recv.List) > 0 && len(fd.Recv.List[0].Names) > 0 {
			recv = info.Defs[fd.Recv.List[0].Names[0]]
		}
		if recv == nil {
			return
		}
		n++
		var writes []string
		ast.Inspect(fd.Body, func(x ast.Node) bool {
			switch y := x.(type) {
			case *ast.AssignStmt:
				for _, l := range y.Lhs {
					root := l
					for {
						switch r := root.(type) {
						case *ast.SelectorExpr:
							root = r.X
							continue
						case *ast.IndexExpr:
							root = r.X
							continue
						}
						break
					}
					if id, ok := root.(*ast.Ident); ok && info.Uses[id] == recv && root != l {
						writes = append(writes, "`"+core.ExprStr(l)+"` at "+c.Pos(y.Pos()))
					}
				}
			case *ast.UnaryExpr:
				if y.Op == token.AND {
					if se, ok := y.X.(*ast.SelectorExpr); ok {
						if id, ok := se.X.(*ast.Ident); ok && info.Uses[id] == recv {
							writes = append(writes, "`&"+core.ExprStr(se)+"` handed out at "+c.Pos(y.Pos()))
						}
					}
				}
			}
			return true
		})
		c.Check(len(writes) == 0, "R20.13", "experimental."+core.RecvName(fd)+"."+fd.Name.Name+" keeps no per-call state in the listener object", fd.Pos(),
			"no field of the receiver is written or handed out",
			"the listener object, shared by all calls of its function on any goroutine, is used as per-call scratch ("+strings.Join(writes, "; ")+"): two goroutines calling the function at once see each other's stack iterator")
	})
	if n == 0 {
		c.Undecided("R20.13", "listener adapters of package experimental", 0, "none found")
	}
}

// checkCloseReachesHostObject (R16.8): the Close method of a sysfs file type closes the host object it wraps (socket, OS file):
// from Close, a call of Close on the value of the wrapping field is reachable inside the package.
func checkCloseReachesHostObject(c *core.Ctx) {
	c.SSA()
	fns := moduleFns(c, "internal/sysfs")
	byRecv := map[*types.Named]map[string]*ssaFunc{}
	for _, fn := range fns {
		if fn.Parent() != nil || fn.Signature.Recv() == nil {
			continue
		}
		rn := core.NamedOf(fn.Signature.Recv().Type())
		if rn == nil {
			continue
		}
		if byRecv[rn] == nil {
			byRecv[rn] = map[string]*ssaFunc{}
		}
		byRecv[rn][fn.Name()] = fn
	}
	n := 0
	for rn, methods := range byRecv {
		closeFn := methods["Close"]
		st, ok := rn.Underlying().(*types.Struct)
		if closeFn == nil || !ok {
			continue
		}
		// fields holding a host object: a type from net or os (or io/fs.File) with a Close method
		for i := 0; i < st.NumFields(); i++ {
			ft := st.Field(i).Type()
			ts := ft.String()
			if !(strings.HasPrefix(ts, "*net.") || strings.HasPrefix(ts, "*os.File") || ts == "io/fs.File" || strings.HasPrefix(ts, "net.")) {
				continue
			}
			if ms := types.NewMethodSet(ft); ms.Lookup(nil, "Close") == nil {
				continue
			}
			n++
			// reachability from Close over static callees within the receiver's methods
			seen := map[*ssaFunc]bool{}
			var reaches func(fn *ssaFunc, depth int) bool
			reaches = func(fn *ssaFunc, depth int) bool {
				if fn == nil || seen[fn] || depth > 4 {
					return false
				}
				seen[fn] = true
				for _, b := range fn.Blocks {
					for _, in := range b.Instrs {
						call, ok := in.(ssaCallInstr)
						if !ok {
							continue
						}
						cc := call.Common()
						name := ""
						var recvVal ssaValue
						if cc.IsInvoke() {
							name, recvVal = cc.Method.Name(), cc.Value
						} else if sc := cc.StaticCallee(); sc != nil {
							name = sc.Name()
							if len(cc.Args) > 0 {
								recvVal = cc.Args[0]
							}
							if sc.Signature.Recv() != nil && core.NamedOf(sc.Signature.Recv().Type()) == rn && sc != fn {
								if reaches(sc, depth+1) {
									return true
								}
							}
						}
						if name == "Close" && recvVal != nil && loadedFromField(recvVal, rn, i) {
							return true
						}
					}
				}
				return false
			}
			ok2 := reaches(closeFn, 0)
			c.Check(ok2, "R16.8", "sysfs."+rn.Obj().Name()+".Close closes the host object in field "+st.Field(i).Name(), closeFn.Pos(),
				"a call of Close on the field's value is reachable from Close",
				"no call of Close on "+rn.Obj().Name()+"."+st.Field(i).Name()+" is reachable from "+rn.Obj().Name()+".Close (the methods only mark the file closed or call each other): fd_close never releases the host socket / file, the peer of a connection gets no EOF, descriptors live until a finalizer runs")
		}
	}
	if n == 0 {
		c.Undecided("R16.8", "sysfs file types wrapping a host object", 0, "none found")
	}
}

type (
	ssaFunc      = ssa.Function
	ssaValue     = ssa.Value
	ssaCallInstr = ssa.CallInstruction
)

// loadedFromField: v is (a conversion of) a load of field i of a value of the named struct type.
func loadedFromField(v ssa.Value, named *types.Named, field int) bool {
	for d := 0; d < 6 && v != nil; d++ {
		switch x := v.(type) {
		case *ssa.UnOp:
			if fa, ok := x.X.(*ssa.FieldAddr); ok {
				return fa.Field == field && core.NamedOf(fa.X.Type()) == named
			}
			return false
		case *ssa.Field:
			return x.Field == field && core.NamedOf(x.X.Type()) == named
		case *ssa.FieldAddr:
			// a promoted method: the receiver is an embedded part of the loaded value (e.g. &tc.conn of *net.TCPConn)
			v = x.X
		case *ssa.ChangeInterface:
			v = x.X
		case *ssa.MakeInterface:
			v = x.X
		case *ssa.ChangeType:
			v = x.X
		default:
			return false
		}
	}
	return false
}

// checkSharedEngineFeatures (R12.9): an engine object is shared by every runtime using one CompilationCache, so what it
// remembers from the FIRST runtime (its core features) must not decide whether a module validated by ANOTHER runtime compiles.
func checkSharedEngineFeatures(c *core.Ctx) {
	p := c.Pkg("internal/engine/interpreter")
	if p == nil {
		return
	}
	info := p.TypesInfo
	n := 0
	core.AllFuncDecls(p, func(fd *ast.FuncDecl) {
		if core.RecvName(fd) != "engine" {
			return
		}
		ast.Inspect(fd.Body, func(x ast.Node) bool {
			call, ok := x.(*ast.CallExpr)
			if !ok {
				return true
			}
			for _, a := range call.Args {
				se, ok := ast.Unparen(a).(*ast.SelectorExpr)
				bare := ok && se.Sel.Name == "enabledFeatures"
				if be, isB := ast.Unparen(a).(*ast.BinaryExpr); isB {
					// widened by a constant feature set: accepted
					mentions := false
					ast.Inspect(be, func(y ast.Node) bool {
						if s2, ok := y.(*ast.SelectorExpr); ok && s2.Sel.Name == "enabledFeatures" {
							mentions = true
						}
						return true
					})
					if mentions {
						n++
						widened := false
						if be.Op == token.OR {
							for _, side := range []ast.Expr{be.X, be.Y} {
								if k := constNameOf(info, side); strings.HasPrefix(k, "CoreFeatures") {
									widened = true
								}
							}
						}
						c.Check(widened, "R12.9", "interpreter "+fd.Name.Name+": the engine's own feature set is widened before it decides about a module", a.Pos(),
							"`"+core.ExprStr(a)+"`", "`"+core.ExprStr(a)+"` restricts the engine's remembered features further")
					}
					continue
				}
				if !bare {
					continue
				}
				if t := info.Types[se.X].Type; t == nil || !strings.Contains(t.String(), "engine") {
					continue
				}
				n++
				c.Violate("R12.9", "interpreter "+fd.Name.Name+": the engine's own feature set does not decide about a module", a.Pos(),
					"`"+core.ExprStr(call)+"` passes the features the engine was created with: the engine is shared through a CompilationCache, so these are the FIRST runtime's features; a module that the compiling runtime validated with its own (e.g. a multi-value block under the default features) is refused after a CoreFeaturesV1 runtime touched the cache")
			}
			return true
		})
	})
	if n == 0 {
		c.Discharge("R12.9", "the interpreter engine passes no remembered feature set to its lowering", 0, "no use of engine.enabledFeatures as an argument")
	}
}

// checkWazerotestMemoryWidths (R14.10): the second api.Memory implementation (experimental/wazerotest) checks the number of
// bytes it accesses.
func checkWazerotestMemoryWidths(c *core.Ctx) {
	p := c.Pkg("experimental/wazerotest")
	if p == nil {
		return
	}
	info := p.TypesInfo
	width := map[string]int64{"PutUint16": 2, "PutUint32": 4, "PutUint64": 8, "Uint16": 2, "Uint32": 4, "Uint64": 8}
	n := 0
	// the range test, and the methods which pass their own (offset, length) on to it (to a fixed point)
	checkers := map[string]bool{"isOutOfRange": true}
	for changed := true; changed; {
		changed = false
		core.AllFuncDecls(p, func(fd *ast.FuncDecl) {
			if core.RecvName(fd) != "Memory" || checkers[fd.Name.Name] || fd.Type.Params.NumFields() != 2 {
				return
			}
			var params []types.Object
			for _, f := range fd.Type.Params.List {
				for _, nm := range f.Names {
					params = append(params, info.Defs[nm])
				}
			}
			ast.Inspect(fd.Body, func(x ast.Node) bool {
				if call, ok := x.(*ast.CallExpr); ok && len(call.Args) == 2 && len(params) == 2 {
					if se, ok := call.Fun.(*ast.SelectorExpr); ok && checkers[se.Sel.Name] {
						a0, ok0 := call.Args[0].(*ast.Ident)
						a1, ok1 := call.Args[1].(*ast.Ident)
						if ok0 && ok1 && info.Uses[a0] == params[0] && info.Uses[a1] == params[1] {
							checkers[fd.Name.Name] = true
							changed = true
						}
					}
				}
				return true
			})
		})
	}
	core.AllFuncDecls(p, func(fd *ast.FuncDecl) {
		if core.RecvName(fd) != "Memory" {
			return
		}
		var checked int64 = -1
		var acc int64 = -1
		var accPos token.Pos
		ast.Inspect(fd.Body, func(x ast.Node) bool {
			call, ok := x.(*ast.CallExpr)
			if !ok {
				return true
			}
			if se, ok := call.Fun.(*ast.SelectorExpr); ok {
				if checkers[se.Sel.Name] && len(call.Args) == 2 {
					if v, ok := core.ConstVal(info, call.Args[1]); ok {
						checked = v
					}
				}
				if w, ok := width[se.Sel.Name]; ok && strings.Contains(core.ExprStr(se.X), "LittleEndian") {
					acc, accPos = w, call.Pos()
				}
			}
			return true
		})
		if acc < 0 || checked < 0 {
			return
		}
		n++
		c.Check(acc == checked, "R14.10", "wazerotest.Memory."+fd.Name.Name+" checks the bytes it accesses", accPos,
			fmt.Sprintf("%d bytes checked and accessed", acc),
			fmt.Sprintf("%d bytes are checked but %d are accessed: near the end of the memory the accessor panics (index out of range) instead of returning false", checked, acc))
	})
	if n < 4 {
		c.Undecided("R14.10", "fixed-width accessors of wazerotest.Memory", 0, fmt.Sprintf("only %d found", n))
	}
}

// checkSharedEntriesRefCounted (R09.8): the engines keep ONE compiled-module entry per module ID, shared by every
// CompiledModule of the same binary and settings (and by every runtime sharing a CompilationCache). Deleting it is therefore
// conditional on a count of its users, and a compilation that hits the entry counts itself.
func checkSharedEntriesRefCounted(c *core.Ctx) {
	for _, e := range []struct{ name, rel, mapField string }{{"interpreter", "internal/engine/interpreter", "compiledFunctions"}, {"compiler", wzv, "compiledModules"}} {
		p := c.Pkg(e.rel)
		if p == nil {
			continue
		}
		info := p.TypesInfo
		found := false
		core.AllFuncDecls(p, func(fd *ast.FuncDecl) {
			if core.RecvName(fd) != "engine" {
				return
			}
			ast.Inspect(fd.Body, func(x ast.Node) bool {
				call, ok := x.(*ast.CallExpr)
				if !ok || !core.IsBuiltin(info, call, "delete") || len(call.Args) != 2 {
					return true
				}
				se, ok := call.Args[0].(*ast.SelectorExpr)
				if !ok || se.Sel.Name != e.mapField {
					return true
				}
				found = true
				// before the delete, a path leaves the function under a comparison of a count with a constant
				guarded := false
				ast.Inspect(fd.Body, func(y ast.Node) bool {
					is, ok := y.(*ast.IfStmt)
					if !ok || is.Pos() > call.Pos() {
						return true
					}
					cmp := comparesCount(info, is.Cond)
					// or the count is consulted by a helper whose result decides (one level): `if e.release(id) { delete … }`
					ast.Inspect(is.Cond, func(z ast.Node) bool {
						if hc, ok := z.(*ast.CallExpr); ok && !cmp {
							if f := core.Callee(info, hc); f != nil && f.Pkg() == p.Types {
								if hd := declOf(p, f); hd != nil && hd.Body != nil && comparesCount(info, hd.Body) {
									cmp = true
								}
							}
						}
						return true
					})
					returns := false
					ast.Inspect(is.Body, func(z ast.Node) bool {
						if _, ok := z.(*ast.ReturnStmt); ok {
							returns = true
						}
						return true
					})
					// either "if count > 1 { …; return }" before the delete, or the delete inside "if count == 0 {"
					inside := is.Body.Pos() <= call.Pos() && call.End() <= is.Body.End()
					if cmp && (returns || inside) {
						guarded = true
						// … and the threshold is the last user: evaluate the comparison for 1, 2 and 3 users before this release.
						// The compared value is the count before the release, or after it when it was decremented first
						// (`x--` in front, or a local bound to `count - 1`).
						var be *ast.BinaryExpr
						ast.Inspect(is.Cond, func(z ast.Node) bool {
							if b, ok := z.(*ast.BinaryExpr); ok && be == nil {
								if _, isK := core.ConstVal(info, b.Y); isK {
									if t := info.Types[b.X].Type; t != nil && basicKind(t) == types.Int {
										be = b
									}
								}
							}
							return true
						})
						if be != nil {
							after := false
							if ids, ok := is.Init.(*ast.IncDecStmt); ok && ids.Tok == token.DEC {
								after = true
							}
							if as, ok := is.Init.(*ast.AssignStmt); ok && len(as.Rhs) == 1 {
								if sub, ok := ast.Unparen(as.Rhs[0]).(*ast.BinaryExpr); ok && sub.Op == token.SUB {
									if k, isK := core.ConstVal(info, sub.Y); isK && k == 1 {
										after = true
									}
								}
							}
							// … or a local bound earlier to `count - 1`
							if id, ok := ast.Unparen(be.X).(*ast.Ident); ok {
								ast.Inspect(fd.Body, func(z ast.Node) bool {
									if as, ok := z.(*ast.AssignStmt); ok && as.Tok == token.DEFINE && len(as.Lhs) == len(as.Rhs) {
										for i, l := range as.Lhs {
											if li, ok := l.(*ast.Ident); ok && info.Defs[li] != nil && info.Defs[li] == info.Uses[id] {
												if sub, ok := ast.Unparen(as.Rhs[i]).(*ast.BinaryExpr); ok && sub.Op == token.SUB {
													if k, isK := core.ConstVal(info, sub.Y); isK && k == 1 {
														after = true
													}
												}
											}
										}
									}
									return true
								})
							}
							for _, lp := range core.EnclosingLists(fd.Body, is) {
								if lp.Index > 0 {
									if ids, ok := lp.List[lp.Index-1].(*ast.IncDecStmt); ok && ids.Tok == token.DEC {
										after = true
									}
								}
							}
							k, _ := core.ConstVal(info, be.Y)
							deleted := func(before int64) bool {
								x := before
								if after {
									x--
								}
								var cond bool
								switch be.Op {
								case token.GTR:
									cond = x > k
								case token.GEQ:
									cond = x >= k
								case token.LSS:
									cond = x < k
								case token.LEQ:
									cond = x <= k
								case token.EQL:
									cond = x == k
								case token.NEQ:
									cond = x != k
								}
								if inside {
									return cond
								}
								return !cond
							}
							okT := deleted(1) && !deleted(2) && !deleted(3)
							c.Check(okT, "R09.8", e.name+" "+fd.Name.Name+": the entry is deleted by exactly the last of its users", is.Pos(),
								"with 1 user before the release the entry goes, with 2 or 3 it stays (`"+core.ExprStr(is.Cond)+"`)",
								fmt.Sprintf("`%s` (count %s the release): the entry is deleted with %v/%v/%v for 1/2/3 users before the release instead of yes/no/no – with two holders of the same module ID the code is removed under the remaining one ('source module must be compiled before instantiation'), or never freed",
									core.ExprStr(is.Cond), map[bool]string{true: "after", false: "before"}[after], deleted(1), deleted(2), deleted(3)))
						}
					}
					return true
				})
				c.Check(guarded, "R09.8", e.name+" "+fd.Name.Name+": the shared compiled-module entry is deleted only with its last user", call.Pos(),
					"the delete is conditional on a user count",
					"`"+core.ExprStr(call)+"` is unconditional: the entry is keyed by the module ID and shared by every CompiledModule of the same binary (and every runtime sharing the CompilationCache), so closing one CompiledModule, an instance made by Runtime.Instantiate, or a failed instantiation removes the code under all the others ('source module must be compiled before instantiation')")
				return true
			})
		})
		if !found {
			c.Undecided("R09.8", e.name+": deletion of compiled-module entries", 0, "no delete on engine."+e.mapField+" found")
		}
	}
}

// checkEveryCyclePolls (R07.6, R07.7): under close-on-context-done every cycle a guest can run in reaches a poll of the
// closed flag. Loops and tail calls are R07.1; the remaining cycles consist of plain calls – every one of them enters a
// function (R07.6: the function entry polls) and, when it passes through a host function calling back, a Call (R07.7: the
// call entry polls the flag itself, not only ctx.Done).
func checkEveryCyclePolls(c *core.Ctx) {
	// R07.7: call entries (decided on SSA, see callEntries)
	{
		wasmP := c.Pkg("internal/wasm")
		var failIfClosed, closeOnCancel, closeWithCtxErr *types.Func
		if wasmP != nil {
			if mi, _ := wasmP.Types.Scope().Lookup("ModuleInstance").Type().(*types.Named); mi != nil {
				failIfClosed = core.ImplMethod(wasmP.Types, mi, "FailIfClosed")
				closeOnCancel = core.ImplMethod(wasmP.Types, mi, "CloseModuleOnCanceledOrTimeout")
				closeWithCtxErr = core.ImplMethod(wasmP.Types, mi, "CloseWithCtxErr")
			}
		}
		for _, e := range []struct{ name, rel string }{{"interpreter", "internal/engine/interpreter"}, {"compiler", wzv}} {
			if c.Pkg(e.rel) == nil {
				continue
			}
			if failIfClosed == nil || closeOnCancel == nil || closeWithCtxErr == nil {
				c.Undecided("R07.7", e.name+": ctx.Done pre-check of the call entry", 0, "ModuleInstance methods not found")
				continue
			}
			efs := callEntries(c, e.rel, closeOnCancel, closeWithCtxErr, failIfClosed)
			for _, ef := range efs {
				c.Check(ef.polls, "R07.7", e.name+" "+ef.entry.Name()+": the call entry polls the closed flag", ef.watcher.Pos(),
					"FailIfClosed is called, and its result used, when the context is not done yet",
					"the call entry only looks at ctx.Done(): a module closed from another goroutine (CloseWithExitCode) is not noticed by a cycle that passes through a host function calling back into the module – each nested Call gets a fresh stack, so neither a loop header nor the stack ceiling is ever reached")
			}
			if len(efs) == 0 {
				c.Undecided("R07.7", e.name+": ctx.Done pre-check of the call entry", 0, "not found")
			}
		}
	}
	// R07.6 interpreter: the function that runs a body polls before its dispatch loop, under the flag
	if p := c.Pkg("internal/engine/interpreter"); p != nil {
		info := p.TypesInfo
		loop := interpExecLoopName(p)
		core.AllFuncDecls(p, func(fd *ast.FuncDecl) {
			if fd.Name.Name != loop {
				return
			}
			var firstLoop token.Pos
			for _, st := range fd.Body.List {
				if _, ok := st.(*ast.ForStmt); ok && firstLoop == 0 {
					firstLoop = st.Pos()
				}
			}
			polls := false
			for _, st := range fd.Body.List {
				if firstLoop != 0 && st.Pos() >= firstLoop {
					break
				}
				is, ok := st.(*ast.IfStmt)
				if !ok || !strings.Contains(core.ExprStr(is.Cond), "ensureTermination") {
					continue
				}
				ast.Inspect(is.Body, func(y ast.Node) bool {
					if call, ok := y.(*ast.CallExpr); ok {
						if f := core.Callee(info, call); f != nil {
							if f.Name() == "FailIfClosed" {
								polls = true
							}
							core.AllFuncDecls(p, func(g *ast.FuncDecl) {
								if info.Defs[g.Name] == types.Object(f) {
									ast.Inspect(g.Body, func(z ast.Node) bool {
										if c2, ok := z.(*ast.CallExpr); ok {
											if f2 := core.Callee(info, c2); f2 != nil && f2.Name() == "FailIfClosed" {
												polls = true
											}
										}
										return true
									})
								}
							})
						}
					}
					return true
				})
			}
			c.Check(polls, "R07.6", "interpreter: entering a function polls the closed flag under the termination flag", fd.Pos(),
				"before its dispatch loop "+fd.Name.Name+" calls FailIfClosed when ensureTermination is set",
				fd.Name.Name+" does not poll when a function is entered: a recursion that never gets deep (f(n){f(n-1); f(n-1)}, 2^63 calls at depth 62) contains neither a loop header nor a tail call and is not stopped by cancel, deadline or close")
		})
	}
	// R07.6 compiler: the function-entry lowering emits the check under the flag
	if p := c.Pkg("internal/engine/wazevo/frontend"); p != nil {
		info := p.TypesInfo
		// the emitter of the check: the function that loads the check trampoline address
		emitters := map[string]bool{}
		core.AllFuncDecls(p, func(fd *ast.FuncDecl) {
			ast.Inspect(fd.Body, func(x ast.Node) bool {
				if se, ok := x.(*ast.SelectorExpr); ok && strings.Contains(se.Sel.Name, "CheckModuleExitCode") {
					emitters[fd.Name.Name] = true
				}
				return true
			})
		})
		found := false
		core.AllFuncDecls(p, func(fd *ast.FuncDecl) {
			// the function-entry lowering: the one that emits the listener's before call / pushes the function control frame
			isEntry := false
			ast.Inspect(fd.Body, func(x ast.Node) bool {
				if kv, ok := x.(*ast.KeyValueExpr); ok && core.ExprStr(kv.Key) == "kind" && strings.Contains(core.ExprStr(kv.Value), "controlFrameKindFunction") {
					isEntry = true
				}
				return true
			})
			if !isEntry {
				return
			}
			found = true
			polls := false
			ast.Inspect(fd.Body, func(x ast.Node) bool {
				is, ok := x.(*ast.IfStmt)
				if !ok || !strings.Contains(core.ExprStr(is.Cond), "ensureTermination") {
					return true
				}
				ast.Inspect(is.Body, func(y ast.Node) bool {
					if call, ok := y.(*ast.CallExpr); ok {
						if f := core.Callee(info, call); f != nil && emitters[f.Name()] {
							polls = true
						}
					}
					return true
				})
				return true
			})
			c.Check(polls, "R07.6", "compiler: entering a function polls the closed flag under the termination flag", fd.Pos(),
				fd.Name.Name+" emits the check at function entry when ensureTermination is set",
				fd.Name.Name+" emits the termination check only at loop headers and tail calls, not at function entry: a recursion that never gets deep (f(n){f(n-1); f(n-1)}, 2^63 calls at depth 62) contains neither and is not stopped by cancel, deadline or close on the compiler")
		})
		if !found {
			c.Undecided("R07.6", "compiler: function-entry lowering", 0, "not found")
		}
	}
}

func commExpr(st ast.Stmt) ast.Expr {
	switch y := st.(type) {
	case *ast.ExprStmt:
		return y.X
	case *ast.AssignStmt:
		if len(y.Rhs) == 1 {
			return y.Rhs[0]
		}
	}
	return &ast.Ident{Name: "_"}
}

// underFlag: target lies inside an if-statement of fd whose condition mentions the termination flag.
func underFlag(fd *ast.FuncDecl, target ast.Node) bool {
	r := false
	ast.Inspect(fd.Body, func(x ast.Node) bool {
		if is, ok := x.(*ast.IfStmt); ok && strings.Contains(core.ExprStr(is.Cond), "nsureTermination") {
			if is.Body.Pos() <= target.Pos() && target.End() <= is.Body.End() {
				r = true
			}
		}
		return true
	})
	return r
}

// checkPrestatOnlyDirectories (R18.8): fd_prestat_get / fd_prestat_dir_name answer only for pre-opened DIRECTORIES: under
// the default configuration (no mounts) the stdio entries, which are pre-opens too, must not be reported.
func checkPrestatOnlyDirectories(c *core.Ctx) {
	p := c.Pkg("imports/wasi_snapshot_preview1")
	if p == nil {
		return
	}
	info := p.TypesInfo
	found := false
	core.AllFuncDecls(p, func(fd *ast.FuncDecl) {
		// the helper that tests IsPreopen and IsDir
		usesPreopen, isDirCall := false, (*ast.CallExpr)(nil)
		ast.Inspect(fd.Body, func(x ast.Node) bool {
			if se, ok := x.(*ast.SelectorExpr); ok && se.Sel.Name == "IsPreopen" {
				usesPreopen = true
			}
			if call, ok := x.(*ast.CallExpr); ok {
				if f := core.Callee(info, call); f != nil && f.Name() == "IsDir" {
					isDirCall = call
				}
			}
			return true
		})
		if !usesPreopen || isDirCall == nil {
			return
		}
		found = true
		// every branch taken when the entry is not a directory returns a non-zero errno constant
		ok2 := false
		var first *ast.IfStmt
		ast.Inspect(fd.Body, func(x ast.Node) bool {
			is, ok := x.(*ast.IfStmt)
			if !ok {
				return true
			}
			cond := core.ExprStr(is.Cond)
			if !strings.Contains(cond, "!isDir") && !strings.Contains(cond, "isDir == false") {
				return true
			}
			if first == nil || is.Pos() < first.Pos() {
				first = is
			}
			return true
		})
		// the FIRST branch a non-directory takes decides; mixed with the errno test (||) the returned errno may be zero
		if first != nil && !strings.Contains(core.ExprStr(first.Cond), "||") {
			for _, st := range first.Body.List {
				if rs, ok := st.(*ast.ReturnStmt); ok && len(rs.Results) >= 2 {
					if k := constNameOf(info, rs.Results[len(rs.Results)-1]); k != "" && k != "nil" {
						ok2 = true
					}
				}
			}
		}
		c.Check(ok2, "R18.8", "WASI "+fd.Name.Name+": a pre-opened entry that is not a directory is answered with an errno", fd.Pos(),
			"the not-a-directory branch returns an errno constant",
			"the not-a-directory case returns the errno of IsDir, which is 0: under the default configuration fd_prestat_get reports stdin, stdout and stderr (pre-opened, not directories) as pre-opened directories with an empty name")
	})
	if !found {
		c.Undecided("R18.8", "pre-open lookup of the WASI functions", 0, "not found")
	}
}

// checkFuncrefGlobalImportPinsExporter (R09.9): linking a funcref global records the exporting instance in the importer
// (the value is a raw pointer into the exporter's engine objects, and with the interpreter the global itself has no owner).
func checkFuncrefGlobalImportPinsExporter(c *core.Ctx) {
	p := c.Pkg("internal/wasm")
	if p == nil {
		return
	}
	info := p.TypesInfo
	found := false
	core.AllFuncDecls(p, func(fd *ast.FuncDecl) {
		ast.Inspect(fd.Body, func(x ast.Node) bool {
			cc, ok := x.(*ast.CaseClause)
			if !ok || len(cc.List) == 0 || constNameOf(info, cc.List[0]) != "ExternTypeGlobal" {
				return true
			}
			// only the linking arm: it stores into the importer's Globals
			links := false
			scope := armScope(p, cc)
			for _, sn := range scope {
				ast.Inspect(sn, func(y ast.Node) bool {
					if as, ok := y.(*ast.AssignStmt); ok && len(as.Lhs) == 1 {
						if ix, ok := as.Lhs[0].(*ast.IndexExpr); ok && strings.HasSuffix(core.ExprStr(ix.X), ".Globals") {
							links = true
						}
					}
					return true
				})
			}
			if !links {
				return true
			}
			found = true
			pins := false
			for _, sn := range scope {
				ast.Inspect(sn, func(y ast.Node) bool {
					call, ok := y.(*ast.CallExpr)
					if !ok || !core.IsBuiltin(info, call, "append") || len(call.Args) < 2 {
						return true
					}
					if t := info.Types[call.Args[1]].Type; t != nil && strings.HasSuffix(t.String(), "wasm.ModuleInstance") {
						pins = true
					}
					return true
				})
			}
			c.Check(pins, "R09.9", "linking a global in "+fd.Name.Name+" records the exporting instance for reference-typed values", cc.Pos(),
				"the arm appends the exporting instance to a keep-alive list of the importer",
				"the global import arm only copies the *GlobalInstance: with the interpreter nothing then references the exporting instance from the importer, and a funcref value (a raw pointer into the exporter's function objects) dangles after the exporter is closed and collected – call_indirect calls a function of an unrelated later instance")
			return true
		})
	})
	if !found {
		c.Undecided("R09.9", "global import arm of the linker", 0, "not found")
	}
}

// checkRewindUnconditional (R16.10): fd_readdir with cookie 0 on a descriptor that was already read rewinds the directory and
// drops the cached window on every path: otherwise a stale listing is replayed (an unlinked entry is still listed).
func checkRewindUnconditional(c *core.Ctx) {
	p := c.Pkg("internal/sys")
	if p == nil {
		return
	}
	info := p.TypesInfo
	found := false
	core.AllFuncDecls(p, func(fd *ast.FuncDecl) {
		if core.RecvName(fd) != "DirentCache" {
			return
		}
		ast.Inspect(fd.Body, func(x ast.Node) bool {
			cc, ok := x.(*ast.CaseClause)
			if !ok || len(cc.List) == 0 {
				return true
			}
			// the clause for "position 0 with something cached"
			cond := core.ExprStr(cc.List[0])
			zero := false
			ast.Inspect(cc.List[0], func(y ast.Node) bool {
				if be, ok := y.(*ast.BinaryExpr); ok && be.Op == token.EQL {
					if v, isK := core.ConstVal(info, be.Y); isK && v == 0 {
						zero = true
					}
				}
				return true
			})
			if !zero {
				return true
			}
			// the Seek call of the clause
			var seek token.Pos
			ast.Inspect(cc, func(y ast.Node) bool {
				if call, ok := y.(*ast.CallExpr); ok && seek == 0 {
					if se, ok := call.Fun.(*ast.SelectorExpr); ok && se.Sel.Name == "Seek" {
						seek = call.Pos()
					}
				}
				return true
			})
			if seek == 0 {
				return true
			}
			found = true
			early := ""
			for _, st := range cc.Body {
				if st.End() >= seek {
					break // the statement containing the Seek and everything after it
				}
				ast.Inspect(st, func(y ast.Node) bool {
					switch z := y.(type) {
					case *ast.BranchStmt:
						early = z.Tok.String() + " at " + c.Pos(z.Pos())
					case *ast.ReturnStmt:
						early = "return at " + c.Pos(z.Pos())
					}
					return true
				})
			}
			dumps := false
			ast.Inspect(cc, func(y ast.Node) bool {
				if as, ok := y.(*ast.AssignStmt); ok && len(as.Lhs) == 1 && len(as.Rhs) == 1 && as.Pos() > seek {
					if se, ok := as.Lhs[0].(*ast.SelectorExpr); ok && se.Sel.Name == "dirents" {
						if id, ok := as.Rhs[0].(*ast.Ident); ok && id.Name == "nil" {
							dumps = true
						}
					}
				}
				return true
			})
			c.Check(early == "" && dumps, "R16.10", "DirentCache."+fd.Name.Name+": position 0 rewinds and drops the cached window on every path (`"+cond+"`)", cc.Pos(),
				"the clause seeks to the start and then clears the cache, with no exit before",
				"the clause can be left ("+early+") before the directory is rewound, or does not clear the cache: fd_readdir with cookie 0 replays the stale window – an entry unlinked since the first listing is still listed while path_filestat_get on it answers ENOENT")
			return true
		})
	})
	if !found {
		c.Undecided("R16.10", "rewind clause of the dirent cache", 0, "not found")
	}
}

// comparesCount: the node contains a comparison of an int-typed expression with a constant.
func comparesCount(info *types.Info, n ast.Node) bool {
	cmp := false
	ast.Inspect(n, func(z ast.Node) bool {
		if be, ok := z.(*ast.BinaryExpr); ok && (be.Op == token.GTR || be.Op == token.GEQ || be.Op == token.LSS || be.Op == token.LEQ || be.Op == token.NEQ || be.Op == token.EQL) {
			if _, isK := core.ConstVal(info, be.Y); isK {
				if t := info.Types[be.X].Type; t != nil && basicKind(t) == types.Int {
					cmp = true
				}
			}
		}
		return true
	})
	return cmp
}
